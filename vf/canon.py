"""Canonical leaf map of a DataTree and leaf-level diff.

Every node, variable, attribute and encoding entry becomes one comparable leaf;
floats are compared by repr (NaN == NaN, -0.0 != 0.0), array values by their
bytes (bit exact), tuple vs list is preserved.
"""
import numpy as np


def plain(x):
    if isinstance(x, dict):
        return {"__dict__": {str(k): plain(v) for k, v in x.items()}}
    if isinstance(x, tuple):
        return {"__tuple__": [plain(v) for v in x]}
    if isinstance(x, list):
        return [plain(v) for v in x]
    if isinstance(x, bool):
        return x
    if isinstance(x, float):
        return {"__float__": repr(x)}
    if isinstance(x, np.ndarray):
        return {"__ndarray__": str(x.dtype), "shape": list(x.shape),
                "data": x.tobytes().hex() if x.dtype != object else repr(x.tolist())}
    if isinstance(x, np.generic):
        return {"__np__": str(x.dtype), "value": repr(x.item())}
    if isinstance(x, (int, str)) or x is None:
        return x
    return {"__other__": type(x).__module__ + "." + type(x).__qualname__, "repr": repr(x)}


def var_leaf(v, load=True):
    d = {
        "dims": list(v.dims),
        "decl_dtype": str(v.dtype),
        "decl_dtype_is_np": isinstance(v.dtype, np.dtype),
        "decl_shape": [int(s) for s in v.shape],
        "attrs": plain(dict(v.attrs)),
        "encoding": plain(dict(v.encoding)),
    }
    if load:
        a = np.asarray(v.values)
        d["dtype"] = str(a.dtype)
        d["shape"] = [int(s) for s in a.shape]
        if a.dtype == object:
            d["data"] = repr(a.tolist())
        elif a.dtype.kind == "U":
            d["data"] = a.tolist()
        else:
            d["data"] = np.ascontiguousarray(a).tobytes().hex()
    return d


def canon(tree, load=True, skip_data=()):
    out = {"__paths__": [n.path for n in tree.subtree]}
    for n in tree.subtree:
        ds = n.to_dataset(inherit=False)
        p = n.path
        out[p + "@@attrnames"] = sorted(map(str, ds.attrs))
        for k, v in ds.attrs.items():
            out[f"{p}@{k}"] = plain(v)
        out[p + "@@vars"] = [str(k) for k in ds.variables]
        out[p + "@@coords"] = sorted(map(str, ds.coords))
        out[p + "@@children"] = list(n.children)
        for k, v in ds.variables.items():
            out[f"{p}#{k}"] = var_leaf(v, load=load and f"{p}#{k}" not in skip_data)
    return out


def diff(a, b, ignore=()):
    """list of (leaf key, sub-field or None, left, right) that differ"""
    out = []
    for k in list(dict.fromkeys(list(a) + list(b))):
        if k not in a:
            out.append((k, None, "<absent>", _short(b[k])))
            continue
        if k not in b:
            out.append((k, None, _short(a[k]), "<absent>"))
            continue
        x, y = a[k], b[k]
        if isinstance(x, dict) and isinstance(y, dict) and "dims" in x and "dims" in y:
            for f in list(dict.fromkeys(list(x) + list(y))):
                if (k, f) in ignore:
                    continue
                if x.get(f, "<absent>") != y.get(f, "<absent>"):
                    out.append((k, f, _short(x.get(f, "<absent>")), _short(y.get(f, "<absent>"))))
        elif x != y:
            if (k, None) in ignore:
                continue
            out.append((k, None, _short(x), _short(y)))
    return out


def _short(x, n=160):
    s = repr(x)
    return s if len(s) <= n else s[:n] + "…"


def json_roundtrip(c):
    """what a canon looks like after crossing a process boundary as JSON (tuples become lists etc.)"""
    import json

    return json.loads(json.dumps(c))
