"""Case executor shared by all checks.

A property module (vf/props/cNN.py) provides
    ID, LEVEL, RULE, ASSUMPTIONS
    n_cases(tier, seed) -> int
    run_case(i, tier, seed) -> dict(sig=..., evals=int, violations=[...], obs={counter:int},
                                    sample=..., inconclusive=None|str, nontrivial=bool)
    REQUIRED_OBS (optional): counters that must be > 0 or the verdict is inconclusive
    finish(agg, tier, seed) (optional): extra coverage keys / cross-case checks

Cases are sharded over subprocesses (one interpreter each, hard wall-clock
watchdog => inconclusive, never a violation).  A violation is a dict with
``what`` (text), optional ``key`` (mechanism key for the known-findings file)
and ``detail``.
"""
import collections
import importlib
import json
import os
import subprocess
import sys
import time

from vf import env, evidence, findings

NPROC = int(os.environ.get("VERIF_NPROC", "16"))

# environment dimensions a user's process may differ in; each worker shard gets one combination (recorded in the evidence)
TIMEZONES = ["UTC", "Europe/Berlin", "America/New_York", "Asia/Tokyo", "Australia/Lord_Howe", "Pacific/Chatham"]


def shard_environment(k, seed):
    """-> dict of environment settings for shard k: time zone, python -O, eager import of every submodule in a seeded order"""
    j = k + seed
    return {"TZ": TIMEZONES[j % len(TIMEZONES)], "PYTHONOPTIMIZE": "1" if j % 4 == 3 else "", "VERIF_IMPORT_ALL": "1" if j % 2 == 1 else ""}


def import_all_submodules(seed):
    """import every (non-test) submodule of the package in a seeded random order before any work: exposes import-order
    dependence and module-level state that only some entry points create"""
    import pkgutil
    import random

    import ceos_alos2

    names = [m.name for m in pkgutil.walk_packages(ceos_alos2.__path__, "ceos_alos2.") if ".tests" not in m.name and not m.name.endswith("__main__")]
    random.Random(f"imports-{seed}").shuffle(names)
    n = 0
    for name in names:
        try:
            importlib.import_module(name)
            n += 1
        except Exception:  # noqa: BLE001  (an optional dependency may be missing; the checks themselves import what they need)
            pass
    return n


def load(prop):
    return importlib.import_module(f"vf.props.{prop.lower()}")


def shard_cases(mod, tier, seed, n, k, nshards):
    """deterministic assignment; modules may give per-case weights for balance (longest first)"""
    w = getattr(mod, "case_weight", None)
    if w is None:
        # a seeded shuffle, not a stride: with a stride of 16 every worker would only ever see cases of one parity
        # (one level, one sample type ...), and what a process did before a case is itself a dimension of the workload
        import random

        order = list(range(n))
        random.Random(f"deal-{seed}-{n}").shuffle(order)
        return order[k::nshards]
    order = sorted(range(n), key=lambda i: (-w(i, tier, seed), i))
    load = [0.0] * nshards
    mine = []
    for i in order:
        j = min(range(nshards), key=lambda x: (load[x], x))
        load[j] += w(i, tier, seed)
        if j == k:
            mine.append(i)
    return mine


def run_shard(prop, tier, seed, k, nshards, out_path):
    """executed inside a worker process"""
    import faulthandler
    import signal
    import traceback

    from vf import reach

    reach.install()
    mod = load(prop)  # first: a property module may have to prepare the interpreter before the package is imported
    if os.environ.get("VERIF_IMPORT_ALL"):
        import_all_submodules(f"{seed}-{k}")
    n = mod.n_cases(tier, seed)
    per_case = getattr(mod, "CASE_TIMEOUT", 120)
    results = []

    class _Timeout(Exception):
        pass

    def on_alarm(signum, frame):
        raise _Timeout()

    signal.signal(signal.SIGALRM, on_alarm)
    with open(out_path, "w") as out:
        for i in shard_cases(mod, tier, seed, n, k, nshards):
            signal.alarm(per_case)
            t0 = time.time()
            try:
                r = mod.run_case(i, tier, seed)
            except _Timeout:
                r = {"sig": "timeout", "evals": 0, "violations": [], "obs": {},
                     "inconclusive": f"case {i} exceeded {per_case}s wall clock"}
            except BaseException as e:  # a harness failure is never 'held'
                r = {"sig": "harness-error", "evals": 0, "violations": [], "obs": {},
                     "inconclusive": f"harness error in case {i}: {type(e).__name__}: {e}",
                     "traceback": traceback.format_exc()[-2000:]}
            finally:
                signal.alarm(0)
            r["case"] = i
            r["wall"] = time.time() - t0
            out.write(json.dumps(r, default=evidence._default, ensure_ascii=False) + "\n")
            out.flush()
    reach.dump(out_path + ".reach")


def execute(prop, tier, seed, only_case=None):
    mod = load(prop)
    t0 = time.time()
    n = mod.n_cases(tier, seed)
    scratch = env.scratch()
    results = []
    if only_case is not None:
        env.bootstrap()
        r = mod.run_case(only_case, tier, seed)
        r["case"] = only_case
        results = [r]
    else:
        nshards = max(1, min(NPROC, n, getattr(mod, "MAX_SHARDS", NPROC)))
        procs = []
        budget = getattr(mod, "CHECK_TIMEOUT", {"quick": 600, "thorough": 7200})[tier]
        for k in range(nshards):
            out_path = os.path.join(scratch, f"shard-{k}.jsonl")
            e = dict(os.environ)
            e["PYTHONHASHSEED"] = str((seed * 7919 + k * 104729 + 1) % 4294967295)
            for name, value in shard_environment(k, seed).items():
                if value:
                    e[name] = value
                else:
                    e.pop(name, None)
            e["VERIF_TMP"] = scratch
            e["PYTHONDONTWRITEBYTECODE"] = "1"
            p = subprocess.Popen(
                [env.PY, "-m", "vf.worker", prop, tier, str(seed), str(k), str(nshards), out_path],
                cwd=env.VERIF, env=e, stdout=subprocess.PIPE, stderr=subprocess.STDOUT, text=True,
            )
            procs.append((k, p, out_path))
        shard_fail = []
        reach_hits = {}
        for k, p, out_path in procs:
            try:
                so, _ = p.communicate(timeout=max(5, budget - (time.time() - t0)))
            except subprocess.TimeoutExpired:
                p.kill()
                so, _ = p.communicate()
                shard_fail.append(f"shard {k} exceeded the check budget of {budget}s")
            if p.returncode not in (0, None) and not shard_fail:
                shard_fail.append(f"shard {k} exited {p.returncode}: {so[-800:]}")
            if os.path.exists(out_path + ".reach"):
                for rel, lines in json.load(open(out_path + ".reach")).items():
                    reach_hits.setdefault(rel, set()).update(lines)
            if os.path.exists(out_path):
                for line in open(out_path):
                    line = line.strip()
                    if line:
                        results.append(json.loads(line))
        for msg in shard_fail:
            results.append({"case": -1, "sig": "shard-failure", "evals": 0, "violations": [], "obs": {},
                            "inconclusive": msg})
    results.sort(key=lambda r: r["case"])
    return verdict(mod, prop, tier, seed, results, time.time() - t0, n if only_case is None else 1,
                   reach_hits=None if only_case is not None else reach_hits)


def verdict(mod, prop, tier, seed, results, wall, n_expected, reach_hits=None):
    open_keys = findings.open_keys(prop)
    obs = collections.Counter()
    sigs = collections.Counter()
    evals = 0
    samples = []
    inconclusive = []
    new_violations = []
    known_seen = collections.Counter()
    for r in results:
        evals += int(r.get("evals", 1))
        for k, v in r.get("obs", {}).items():
            obs[k] += v
        if r.get("inconclusive"):
            inconclusive.append(r["inconclusive"])
        if r.get("nontrivial", True) and r.get("sig") not in ("timeout", "harness-error", "shard-failure"):
            for s in (r["sig"] if isinstance(r.get("sig"), list) else [r.get("sig")]):
                sigs[s] += 1
        if r.get("sample") is not None and len(samples) < 6:
            samples.append(r["sample"])
        for v in r.get("violations", []):
            key = v.get("key")
            if key is not None and key in open_keys:
                known_seen[key] += 1
            else:
                new_violations.append((r["case"], v))
    got_cases = len([r for r in results if r["case"] >= 0])
    if got_cases < n_expected:
        inconclusive.append(f"only {got_cases} of {n_expected} cases reported")
    for name in getattr(mod, "REQUIRED_OBS", ()):
        if obs.get(name, 0) <= 0:
            inconclusive.append(f"required monitor counter {name!r} stayed at zero")
    reach_cov = None
    if reach_hits is not None:
        from vf import reach

        reach_cov, dead = reach.summarise(reach_hits, reach.anchored_files(prop))
        for a in dead:
            inconclusive.append(f"no line inside any function of the anchored file {a} was executed by this workload")
    coverage = {
        "evaluations": evals,
        "distinct_nontrivial": len(sigs),
        "rule": mod.RULE,
        "samples": samples or [{"note": "no sample recorded"}],
        "cases": got_cases,
        "observed": dict(sorted(obs.items())),
        "class_histogram_top": dict(sigs.most_common(12)),
        "known_findings_seen": dict(known_seen),
        "inconclusive": inconclusive[:10],
        "inconclusive_count": len(inconclusive),
        "verdict": "violated" if new_violations else ("inconclusive" if inconclusive else "held"),
    }
    if reach_cov is not None:
        coverage["reach"] = reach_cov
        nsh = max(1, min(NPROC, n_expected, getattr(mod, "MAX_SHARDS", NPROC)))
        coverage["worker_environments"] = [dict(shard=k, PYTHONHASHSEED=(seed * 7919 + k * 104729 + 1) % 4294967295,
                                                **{a: b for a, b in shard_environment(k, seed).items() if b}) for k in range(nsh)]
    if hasattr(mod, "finish"):
        extra = mod.finish(results, tier, seed) or {}
        for v in extra.pop("violations", []):
            key = v.get("key")
            if key is not None and key in open_keys:
                known_seen[key] += 1
            else:
                new_violations.append((-1, v))
        coverage.update(extra)
        coverage["known_findings_seen"] = dict(known_seen)
        if new_violations:
            coverage["verdict"] = "violated"
    lines = []
    replay_paths = []
    for case, v in new_violations[:20]:
        path = evidence.write_replay(prop, {"property": prop, "tier": tier, "seed": seed, "case": case, "violation": v})
        replay_paths.append(path)
        lines.append(f"VIOLATION property={prop} replay={path}")
        lines.append(f"  case {case}: {v.get('what')}"[:600])
    coverage["violation_witnesses"] = [
        {"case": c, "what": v.get("what"), "key": v.get("key")} for c, v in new_violations[:10]
    ]
    evidence.write(prop, tier, seed, mod.LEVEL, coverage, wall, violations=len(new_violations),
                   assumptions=getattr(mod, "ASSUMPTIONS", ()))
    for key, cnt in known_seen.items():
        print(f"KNOWN-FINDING: property={prop} {key}: {open_keys[key]['what']} (seen {cnt}x)")
    for line in lines:
        print(line)
    status = coverage["verdict"]
    print(f"{prop} {tier} seed={seed}: {status}; cases={got_cases} evaluations={evals} "
          f"distinct={len(sigs)} wall={wall:.1f}s observed={dict(sorted(obs.items()))}")
    if new_violations:
        return 1
    if inconclusive:
        for m in inconclusive[:5]:
            print(f"INCONCLUSIVE property={prop} reason={m}")
        return 2
    return 0
