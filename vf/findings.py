"""Known findings: committed file, read-only at run time.

Entries: {property, key, status: open|fixed, commit?, what}.  A check maps a
witness to a *mechanism key* with its own classifier; only ``open`` keys
suppress a violation (the check prints KNOWN-FINDING and exits 0 for them).
"""
import json
import os

from vf import env

_cache = None


def load():
    global _cache
    if _cache is None:
        p = os.path.join(env.VERIF, "known_findings.json")
        _cache = json.load(open(p)) if os.path.exists(p) else {"findings": []}
    return _cache["findings"]


def open_keys(prop):
    return {f["key"]: f for f in load() if f["property"] == prop and f["status"] == "open"}
