"""Bootstrap shared by every check and worker.

* imports the package under test from ${VERIF_REPO:-/repo}'s working tree (nothing to build);
* gives the process a private XDG cache directory *before* ceos_alos2 is imported
  (its cache root is computed at import time);
* puts /verif/.deps (icontract, installed offline by setup.sh) on sys.path if present.
"""
import atexit
import os
import shutil
import sys
import tempfile

VERIF = os.path.dirname(os.path.dirname(os.path.abspath(__file__)))
REPO = os.environ.get("VERIF_REPO", "/repo")
GUARD = "CEOS_ALOS2_VERIF"
PY = "/venv/bin/python"

_scratch = None


def scratch():
    """process-private scratch directory, removed at exit"""
    global _scratch
    if _scratch is None:
        base = os.environ.get("VERIF_TMP") or os.environ.get("TMPDIR") or "/tmp"
        os.makedirs(base, exist_ok=True)
        _scratch = tempfile.mkdtemp(prefix="vf-", dir=base)
        atexit.register(shutil.rmtree, _scratch, ignore_errors=True)
    return _scratch


def bootstrap(cache_home=None):
    sys.dont_write_bytecode = True
    os.environ[GUARD] = "1"
    deps = os.path.join(VERIF, ".deps")
    if os.path.isdir(deps) and deps not in sys.path:
        sys.path.insert(0, deps)
    if REPO not in sys.path:
        sys.path.insert(0, REPO)
    if VERIF not in sys.path:
        sys.path.insert(0, VERIF)
    if cache_home is None:
        cache_home = os.path.join(scratch(), "xdg")
    os.makedirs(cache_home, exist_ok=True)
    os.environ["XDG_CACHE_HOME"] = cache_home
    import warnings

    warnings.filterwarnings("ignore")
    return cache_home


def seed():
    try:
        return int(os.environ.get("VERIF_SEED", "0"))
    except ValueError:
        return 0
