import sys

from vf import env

if __name__ == "__main__":
    prop, tier, seed, k, nshards, out = sys.argv[1:7]
    env.bootstrap()
    from vf import runner

    runner.run_shard(prop, tier, int(seed), int(k), int(nshards), out)
