"""Frozen documentation tables (data, reviewed by hand) used by the oracles.  Nothing here is derived at run time."""

REFERENCE_DOCUMENT = "https://www.eorc.jaxa.jp/ALOS-2/en/doc/fdata/PALSAR-2_xx_Format_CEOS_E_f.pdf"

# root attribute name -> (record, field) of the volume directory file
VOLUME_ATTRS = {
    "control_document_id": ("vd", "superstructure_format_control_document_id"),
    "control_document_revision_level": ("vd", "superstructure_format_control_document_revision_level"),
    "record_format_revision_level": ("vd", "superstructure_record_format_revision_level"),
    "software_version": ("vd", "software_release_and_revision_level"),
    "physical_volume_id": ("vd", "physical_volume_id"),
    "logical_volume_id": ("vd", "logical_volume_id"),
    "volume_set_id": ("vd", "volume_set_id"),
    "creation_datetime": ("vd", "logical_volume_creation_datetime"),
    "creation_country": ("vd", "logical_volume_generation_country"),
    "creation_agency": ("vd", "logical_volume_generating_agency"),
    "creation_facility": ("vd", "logical_volume_generating_facility"),
    "product_id": ("txt", "product_id"),
    "product_creation": ("txt", "location_and_datetime_of_product_creation"),
    "scene_id": ("txt", "scene_id"),
    "scene_location_id": ("txt", "scene_location_id"),
}

METADATA_GROUPS = ["dataset_summary", "map_projection", "platform_position", "attitude", "radiometric_data",
                   "data_quality_summary", "transformations"]

SUMMARY_SECTIONS = {
    "Odi": "ordering_information", "Scs": "scene_specification", "Pds": "product_specification",
    "Img": "image_information", "Pdi": "product_information", "Ach": "autocheck",
    "Rad": "result_information", "Lbi": "label_information",
}
