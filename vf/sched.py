"""Deterministic thread scheduler: exactly one registered thread runs between yield points.

Yield points sit *before* each filesystem operation takes effect and before each lock acquisition; a thread waiting
for a lock token that another thread owns is not enabled.  A schedule is the list of choices (index into the sorted
enabled set) taken at each step; ``fanout`` records how many alternatives existed, which drives the depth-first
enumeration in explore().
"""
import sys
import threading
import time

_RealLock = threading.Lock
_RealRLock = threading.RLock
STALL = 2.0  # seconds without reaching a yield point before the running thread counts as blocked on something unknown


class Deadlock(Exception):
    pass


class Sched:
    def __init__(self, choices, nthreads):
        self.choices = list(choices)
        self.n = nthreads
        self.pos = 0
        self.trace = []
        self.fanout = []
        self.cv = threading.Condition(_RealRLock())
        self.current = None
        self.since = time.monotonic()
        self.stalled = set()
        self.stall_events = 0
        self.waiting = {}
        self.blocked = {}
        self.owners = {}
        self.done = set()
        self.deadlock = None
        self.free = False
        # tid mode (preemption-bounded exploration): choices are thread ids; beyond the given prefix the thread that ran
        # last keeps running while it is enabled
        self.by_tid = False
        self.last = None
        self.hist = []
        self.invalid = False

    def _all_parked(self):
        return len(self.waiting) + len(self.done) + len(self.stalled) == self.n

    def _pick(self):
        enabled = sorted(t for t in self.waiting if t not in self.blocked or self.blocked[t] not in self.owners)
        self.since = time.monotonic()
        if not enabled:
            if len(self.done) == self.n or self.stalled:
                # finished, or only threads blocked on something the scheduler does not know are left: wait for them
                self.current = None
                return
            self.deadlock = {"waiting": dict(self.waiting), "blocked_on": dict(self.blocked), "owners": dict(self.owners),
                             "trace_tail": self.trace[-8:]}
            self.free = True  # let parked threads go so the process can report
            self.cv.notify_all()
            return
        if self.by_tid:
            want = self.choices[self.pos] if self.pos < len(self.choices) else None
            if want is None or want not in enabled:
                if want is not None:
                    self.invalid = True
                want = self.last if self.last in enabled else enabled[0]
            self.hist.append((tuple(enabled), want, self.last))
            self.last = want
            self.fanout.append(len(enabled))
            self.pos += 1
            self.current = want
            return
        i = self.choices[self.pos] if self.pos < len(self.choices) else 0
        self.fanout.append(len(enabled))
        self.pos += 1
        self.current = enabled[i % len(enabled)]

    def yield_point(self, tid, label, lock_token=None):
        with self.cv:
            if self.free:
                return
            self.waiting[tid] = label
            self.stalled.discard(tid)
            if lock_token is not None:
                self.blocked[tid] = lock_token
            if self.current == tid or (self.current is None and self._all_parked()):
                self.current = None
                if self._all_parked():
                    self._pick()
            self.cv.notify_all()
            while self.current != tid and not self.free:
                self.cv.wait(timeout=0.5)
                c = self.current
                if (c is not None and c != tid and c not in self.waiting and c not in self.done and not self.free
                        and time.monotonic() - self.since > STALL):
                    # the thread that was given the turn never reached its next yield point: it is blocked on
                    # synchronisation the scheduler does not own (or just slow); let the others go on, it rejoins when it arrives
                    self.stalled.add(c)
                    self.stall_events += 1
                    self.current = None
                    if self._all_parked():
                        self._pick()
                    self.cv.notify_all()
            if self.free:
                return
            del self.waiting[tid]
            self.blocked.pop(tid, None)
            if lock_token is not None:
                self.owners[lock_token] = tid
            self.trace.append((tid, label))

    def try_acquire(self, tid, token):
        """coarse mode: take an uncontended lock without yielding"""
        with self.cv:
            if self.free or token in self.owners:
                return False
            self.owners[token] = tid
            return True

    def release(self, tid, token):
        with self.cv:
            if self.owners.get(token) == tid:
                del self.owners[token]

    def finish(self, tid):
        with self.cv:
            self.done.add(tid)
            self.waiting.pop(tid, None)
            self.stalled.discard(tid)
            if self.current == tid or self.current is None:
                self.current = None
                if self._all_parked() and not self.free and len(self.done) < self.n:
                    self._pick()
            self.cv.notify_all()

    def set_free(self):
        with self.cv:
            self.free = True
            self.cv.notify_all()


CUR = [None]
TID = threading.local()
COARSE = [False]  # coarse mode: yield only at start/open/seek/read; uncontended lock acquisitions do not yield


def _tid():
    return getattr(TID, "id", None)


def fs_hook(ev):
    s = CUR[0]
    if s is not None and ev[0] == "pre" and _tid() is not None:
        if COARSE[0] and ev[1] not in ("open", "seek", "read"):
            return
        s.yield_point(_tid(), ev[1])


from xarray.backends.locks import SerializableLock  # noqa: E402

_orig_lock_methods = {}


def _sl_acquire(self, *a, **k):
    s = CUR[0]
    t = _tid()
    if s is not None and t is not None and not s.free:
        if not (COARSE[0] and s.try_acquire(t, self.token)):
            s.yield_point(t, "lock", lock_token=self.token)
    return _orig_lock_methods["acquire"](self, *a, **k)


def _sl_release(self, *a, **k):
    r = _orig_lock_methods["release"](self, *a, **k)
    s = CUR[0]
    t = _tid()
    if s is not None and t is not None:
        s.release(t, self.token)
    return r


def _sl_enter(self):
    self.acquire()


def _sl_exit(self, *a):
    self.release()


class SchedLock:
    """stand-in for threading.Lock / RLock objects created by the package under test: acquisition is a yield point and
    a thread waiting for a held lock is not enabled (otherwise a parked lock holder and a scheduled waiter would hang)"""

    def __init__(self, real, reentrant):
        self._real = real
        self._re = reentrant
        self._depth = 0
        self.token = f"L{id(self):x}"

    def acquire(self, blocking=True, timeout=-1):
        s = CUR[0]
        t = _tid()
        if s is not None and t is not None and not s.free and blocking:
            if self._re and s.owners.get(self.token) == t:
                self._depth += 1
                return self._real.acquire(blocking, timeout)
            if not (COARSE[0] and s.try_acquire(t, self.token)):
                s.yield_point(t, "lock", lock_token=self.token)
            ok = self._real.acquire(blocking, timeout)
            self._depth = 1
            return ok
        return self._real.acquire(blocking, timeout)

    def release(self):
        s = CUR[0]
        t = _tid()
        self._real.release()
        if s is not None and t is not None:
            self._depth -= 1
            if self._depth <= 0:
                s.release(t, self.token)

    def locked(self):
        return self._real.locked()

    def __enter__(self):
        return self.acquire()

    def __exit__(self, *a):
        self.release()

    def __getstate__(self):
        raise TypeError("cannot pickle lock objects")


def patch_threading_locks():
    """threading.Lock() / RLock() called from ceos_alos2 code return scheduler-aware locks (everything else: real ones)"""
    if getattr(threading, "_vf_patched", False):
        return

    def _from_package():
        try:
            return sys._getframe(2).f_globals.get("__name__", "").startswith("ceos_alos2")
        except ValueError:
            return False

    def Lock():
        return SchedLock(_RealLock(), False) if _from_package() else _RealLock()

    def RLock(*a, **k):
        return SchedLock(_RealRLock(), True) if _from_package() else _RealRLock(*a, **k)

    threading.Lock = Lock
    threading.RLock = RLock
    threading._vf_patched = True


def install_lock():
    """make xarray's SerializableLock scheduler-aware *in place* (harness side only): acquisition becomes a yield point and a
    thread waiting for a held token is not enabled.  Patching the class itself (not the name the package imported) keeps
    working when the package imports the lock differently, and pickled trees keep referring to the real class."""
    if not _orig_lock_methods:
        _orig_lock_methods["acquire"] = SerializableLock.acquire
        _orig_lock_methods["release"] = SerializableLock.release
        SerializableLock.acquire = _sl_acquire
        SerializableLock.release = _sl_release
        SerializableLock.__enter__ = _sl_enter
        SerializableLock.__exit__ = _sl_exit
    return SerializableLock


def run(choices, jobs, join_timeout=20, by_tid=False):
    """jobs: list of callables; -> (sched, results dict tid -> value | exception, hung: bool)"""
    s = Sched(choices, len(jobs))
    s.by_tid = by_tid
    CUR[0] = s
    res = {}

    def worker(i, fn):
        TID.id = i
        try:
            s.yield_point(i, "start")
            res[i] = fn()
        except BaseException as e:  # noqa: BLE001
            res[i] = e
        finally:
            s.finish(i)
            TID.id = None

    ths = [threading.Thread(target=worker, args=(i, fn), daemon=True) for i, fn in enumerate(jobs)]
    for t in ths:
        t.start()
    hung = False
    deadline = time.monotonic() + join_timeout
    for t in ths:
        t.join(max(0.0, deadline - time.monotonic()))
        hung = hung or t.is_alive()
    if hung:
        # release every parked thread so that real locks they hold are given back and later runs are not affected
        s.set_free()
        for t in ths:
            t.join(5)
    CUR[0] = None
    return s, res, hung


def explore(jobs, check, prefix=(), limit=200000, min_depth=0):
    """depth-first enumeration of all schedules extending ``prefix``.

    check(results) -> None | str (a violation text).  Returns dict(runs, distinct, violations, deadlocks, hung, invalid_prefix)
    """
    seen = set()
    out = {"runs": 0, "distinct": 0, "violations": [], "deadlocks": 0, "hung": 0, "invalid_prefix": False, "max_depth": 0}
    stack = [list(prefix)]
    first = True
    while stack and out["runs"] < limit:
        pre = stack.pop()
        s, res, hung = run(pre, jobs)
        if first:
            first = False
            if any(c >= f for c, f in zip(prefix, s.fanout)) or len(s.fanout) < len(prefix):
                out["invalid_prefix"] = True
                return out
        out["runs"] += 1
        out["max_depth"] = max(out["max_depth"], len(s.fanout))
        seen.add(tuple(s.trace))
        if s.deadlock is not None:
            out["deadlocks"] += 1
            out["violations"].append({"what": f"deadlock: no thread runnable while some are unfinished: {s.deadlock}", "schedule": pre})
            if hung:
                out["hung"] += 1
                break  # threads are stuck on a real lock; this process cannot continue exploring
        elif hung:
            out["hung"] += 1
            break
        else:
            msg = check(res)
            if msg and len(out["violations"]) < 5:
                out["violations"].append({"what": msg, "schedule": pre, "trace": [f"{t}:{l}" for t, l in s.trace]})
        for d in range(max(len(pre), min_depth), len(s.fanout)):
            for alt in range(1, s.fanout[d]):
                stack.append(pre + [0] * (d - len(pre)) + [alt])
    out["distinct"] = len(seen)
    out["interleaved"] = sum(1 for t in seen if is_interleaved(t))
    return out


def is_interleaved(trace):
    """more thread switches than running the threads one after the other needs"""
    tids = [t for t, _ in trace]
    switches = sum(1 for a, b in zip(tids, tids[1:]) if a != b)
    return switches > len(set(tids)) - 1


# ---- line-level yield points (every statement start of the read path is a legitimate preemption point of a thread) ----

FINE = [False]
_LINE_TOOL = 2
_line_on = [False]
LINE_FILES = ("ceos_alos2/array.py", "ceos_alos2/xarray.py")


def install_line_yields():
    import sys

    mon = getattr(sys, "monitoring", None)
    if mon is None or _line_on[0]:
        return _line_on[0]
    try:
        mon.use_tool_id(_LINE_TOOL, "vf-sched-lines")
    except ValueError:
        return False

    def on_line(code, line, files=LINE_FILES, cur=CUR, fine=FINE, tid=_tid, disable=mon.DISABLE):
        if not code.co_filename.endswith(files):
            return disable
        s = cur[0]
        if s is not None and fine[0]:
            t = tid()
            if t is not None:
                s.yield_point(t, f"L{line}")

    mon.register_callback(_LINE_TOOL, mon.events.LINE, on_line)
    mon.set_events(_LINE_TOOL, mon.events.LINE)
    _line_on[0] = True
    return True


def _preemptions(hist, upto):
    return sum(1 for en, chosen, last in hist[:upto] if last is not None and last in en and chosen != last)


def explore_pb(jobs, check, bound=1, shard=(0, 1), limit=20000):
    """preemption-bounded depth-first exploration (choices are thread ids; a preemption = switching away from a thread
    that could have continued).  Enumerates every schedule with at most ``bound`` preemptions; the top-level branches
    are dealt round-robin to shards.  -> dict(runs, distinct, interleaved, violations, deadlocks, hung, max_depth, steps)"""
    seen = set()
    out = {"runs": 0, "distinct": 0, "violations": [], "deadlocks": 0, "hung": 0, "max_depth": 0, "steps": 0, "complete": True}
    stack = [([], 0)]
    top = 0
    while stack:
        if out["runs"] >= limit:
            out["complete"] = False
            break
        pre, depth0 = stack.pop()
        s, res, hung = run(pre, jobs, by_tid=True)
        out["runs"] += 1
        out["stalls"] = out.get("stalls", 0) + s.stall_events
        out["steps"] += len(s.hist)
        out["max_depth"] = max(out["max_depth"], len(s.hist))
        seen.add(tuple(s.trace))
        if s.deadlock is not None:
            out["deadlocks"] += 1
            out["violations"].append({"what": f"deadlock: no thread runnable while some are unfinished: {s.deadlock}", "schedule": pre})
            if hung:
                out["hung"] += 1
                break
        elif hung:
            out["hung"] += 1
            break
        else:
            msg = check(res)
            if msg and len(out["violations"]) < 5:
                out["violations"].append({"what": msg, "schedule": pre, "trace": [f"{t}:{l}" for t, l in s.trace][-80:]})
        chosen = [c for _, c, _ in s.hist]
        for d in range(depth0, len(s.hist)):
            en, ch, last = s.hist[d]
            used = _preemptions(s.hist, d)
            for alt in en:
                if alt == ch:
                    continue
                cost = 1 if (last is not None and last in en and alt != last) else 0
                if used + cost > bound:
                    continue
                if not pre:
                    top += 1
                    if (top - 1) % shard[1] != shard[0]:
                        continue
                stack.append((chosen[:d] + [alt], d + 1))
    out["distinct"] = len(seen)
    out["interleaved"] = sum(1 for t in seen if is_interleaved(t))
    return out
