"""Deterministic thread scheduler: exactly one registered thread runs between yield points.

Yield points sit *before* each filesystem operation takes effect and before each lock acquisition; a thread waiting
for a lock token that another thread owns is not enabled.  A schedule is the list of choices (index into the sorted
enabled set) taken at each step; ``fanout`` records how many alternatives existed, which drives the depth-first
enumeration in explore().
"""
import threading


class Deadlock(Exception):
    pass


class Sched:
    def __init__(self, choices, nthreads):
        self.choices = list(choices)
        self.n = nthreads
        self.pos = 0
        self.trace = []
        self.fanout = []
        self.cv = threading.Condition()
        self.current = None
        self.waiting = {}
        self.blocked = {}
        self.owners = {}
        self.done = set()
        self.deadlock = None
        self.free = False

    def _all_parked(self):
        return len(self.waiting) + len(self.done) == self.n

    def _pick(self):
        enabled = sorted(t for t in self.waiting if t not in self.blocked or self.blocked[t] not in self.owners)
        if not enabled:
            if len(self.done) == self.n:
                self.current = None
                return
            self.deadlock = {"waiting": dict(self.waiting), "blocked_on": dict(self.blocked), "owners": dict(self.owners),
                             "trace_tail": self.trace[-8:]}
            self.free = True  # let parked threads go so the process can report
            self.cv.notify_all()
            return
        i = self.choices[self.pos] if self.pos < len(self.choices) else 0
        self.fanout.append(len(enabled))
        self.pos += 1
        self.current = enabled[i % len(enabled)]

    def yield_point(self, tid, label, lock_token=None):
        with self.cv:
            if self.free:
                return
            self.waiting[tid] = label
            if lock_token is not None:
                self.blocked[tid] = lock_token
            if self.current == tid or (self.current is None and self._all_parked()):
                self.current = None
                if self._all_parked():
                    self._pick()
            self.cv.notify_all()
            while self.current != tid and not self.free:
                self.cv.wait(timeout=5)
            if self.free:
                return
            del self.waiting[tid]
            self.blocked.pop(tid, None)
            if lock_token is not None:
                self.owners[lock_token] = tid
            self.trace.append((tid, label))

    def try_acquire(self, tid, token):
        """coarse mode: take an uncontended lock without yielding"""
        with self.cv:
            if self.free or token in self.owners:
                return False
            self.owners[token] = tid
            return True

    def release(self, tid, token):
        with self.cv:
            if self.owners.get(token) == tid:
                del self.owners[token]

    def finish(self, tid):
        with self.cv:
            self.done.add(tid)
            self.waiting.pop(tid, None)
            if self.current == tid:
                self.current = None
                if self._all_parked() and not self.free:
                    self._pick()
            self.cv.notify_all()


CUR = [None]
TID = threading.local()
COARSE = [False]  # coarse mode: yield only at start/open/seek/read; uncontended lock acquisitions do not yield


def _tid():
    return getattr(TID, "id", None)


def fs_hook(ev):
    s = CUR[0]
    if s is not None and ev[0] == "pre" and _tid() is not None:
        if COARSE[0] and ev[1] not in ("open", "seek", "read"):
            return
        s.yield_point(_tid(), ev[1])


from xarray.backends.locks import SerializableLock  # noqa: E402


class SLock(SerializableLock):
    """scheduler-aware lock (module level so that pickled trees keep working)"""

    _vf = True

    def acquire(self, *a, **k):
        s = CUR[0]
        if s is not None and _tid() is not None:
            if not (COARSE[0] and s.try_acquire(_tid(), self.token)):
                s.yield_point(_tid(), "lock", lock_token=self.token)
        return self.lock.acquire(*a, **k)

    def release(self, *a, **k):
        r = self.lock.release(*a, **k)
        s = CUR[0]
        if s is not None and _tid() is not None:
            s.release(_tid(), self.token)
        return r

    def __enter__(self):
        self.acquire()

    def __exit__(self, *a):
        self.release()


def install_lock():
    """replace the lock class used by ceos_alos2.xarray with the scheduler-aware subclass (harness side only)"""
    import ceos_alos2.xarray as cx

    cx.SerializableLock = SLock
    return SLock


def run(choices, jobs, join_timeout=20):
    """jobs: list of callables; -> (sched, results dict tid -> value | exception, hung: bool)"""
    s = Sched(choices, len(jobs))
    CUR[0] = s
    res = {}

    def worker(i, fn):
        TID.id = i
        try:
            s.yield_point(i, "start")
            res[i] = fn()
        except BaseException as e:  # noqa: BLE001
            res[i] = e
        finally:
            s.finish(i)
            TID.id = None

    ths = [threading.Thread(target=worker, args=(i, fn), daemon=True) for i, fn in enumerate(jobs)]
    for t in ths:
        t.start()
    hung = False
    for t in ths:
        t.join(join_timeout)
        hung = hung or t.is_alive()
    CUR[0] = None
    return s, res, hung


def explore(jobs, check, prefix=(), limit=200000, min_depth=0):
    """depth-first enumeration of all schedules extending ``prefix``.

    check(results) -> None | str (a violation text).  Returns dict(runs, distinct, violations, deadlocks, hung, invalid_prefix)
    """
    seen = set()
    out = {"runs": 0, "distinct": 0, "violations": [], "deadlocks": 0, "hung": 0, "invalid_prefix": False, "max_depth": 0}
    stack = [list(prefix)]
    first = True
    while stack and out["runs"] < limit:
        pre = stack.pop()
        s, res, hung = run(pre, jobs)
        if first:
            first = False
            if any(c >= f for c, f in zip(prefix, s.fanout)) or len(s.fanout) < len(prefix):
                out["invalid_prefix"] = True
                return out
        out["runs"] += 1
        out["max_depth"] = max(out["max_depth"], len(s.fanout))
        seen.add(tuple(s.trace))
        if s.deadlock is not None:
            out["deadlocks"] += 1
            out["violations"].append({"what": f"deadlock: no thread runnable while some are unfinished: {s.deadlock}", "schedule": pre})
            if hung:
                out["hung"] += 1
                break  # threads are stuck on a real lock; this process cannot continue exploring
        elif hung:
            out["hung"] += 1
            break
        else:
            msg = check(res)
            if msg and len(out["violations"]) < 5:
                out["violations"].append({"what": msg, "schedule": pre, "trace": [f"{t}:{l}" for t, l in s.trace]})
        for d in range(max(len(pre), min_depth), len(s.fanout)):
            for alt in range(1, s.fanout[d]):
                stack.append(pre + [0] * (d - len(pre)) + [alt])
    out["distinct"] = len(seen)
    out["interleaved"] = sum(1 for t in seen if is_interleaved(t))
    return out


def is_interleaved(trace):
    """more thread switches than running the threads one after the other needs"""
    tids = [t for t, _ in trace]
    switches = sum(1 for a, b in zip(tids, tids[1:]) if a != b)
    return switches > len(set(tids)) - 1
