"""C13 tree assembly — reference-model monitor.

Every image file of a product carries distinct pixels and distinct line numbers, so a swapped, dropped, merged or
mis-named image group is visible; node lists, coordinate sets and root attribute names are compared with the model.
"""
import random

import numpy as np

from vf import gen, harness, refdec, speclib, synth, treecheck

ID = "C13"
LEVEL = "exploration"
RULE = ("(half of the products carry a random scene id incl. leap days; directory names with special characters) "
        "seeded products: 1..8 images over polarisation subsets x scan suffix sets (none, F1..F7 / B1..B7 subsets), levels "
        "1.1/1.5/3.1, image files listed polarisation-major / scan-major / reversed / in random order (ordinals need not be alphabetical), map projection record present/absent, summary lines shuffled within and across sections for a third of "
        "the cases, LF/CRLF, workers run under different PYTHONHASHSEEDs; every third product is then replaced in place (same root and file names, "
        "new content everywhere, map projection toggled) and the second open is compared completely (root attributes, /metadata, line metadata, pixels). evaluations = products; non-trivial = product with "
        ">=2 image files or a scan suffix; distinct = distinct (level, pols, #scans, mp, shuffled) signatures")
ASSUMPTIONS = ["file names always carry a polarisation (the naming rule presumes it)",
               "'summary order' of the images is the order of their ProductFileNameNN ordinals",
               "order of /metadata children is not asserted, only the set"]
REQUIRED_OBS = ["products", "image_groups_checked", "replaced_in_place", "trees_via_cache"]
N = {"quick": 300, "thorough": 8000}


def n_cases(tier, seed):
    return N[tier]


def run_case(i, tier, seed):
    rng = random.Random(f"C13-{seed}-{i}")
    obs = {"products": 0, "image_groups_checked": 0, "nodes": 0}
    violations = []
    level = ["1.1", "1.5", "3.1"][i % 3]
    n_pols = [1, 2, 4, 3][(i // 3) % 4]
    if (i // 12) % 3 == 0:
        scans = [None]
    else:
        letter = rng.choice("BF")
        scans = [f"{letter}{k}" for k in sorted(rng.sample(range(1, 8), rng.choice([1, 2, 2, 3, 5, 7])))]
        n_pols = min(n_pols, max(1, 8 // len(scans)))
    shuffled = i % 3 == 1
    newline = "\r\n" if i % 5 == 0 else "\n"
    n_mp = rng.choice([0, 1])
    image_order = [None, "scan-major", "reversed", "random"][(i // 2) % 4]
    files, info = gen.rich_product(rng, [seed, i], level=level, n_images=n_pols, scans=scans, max_lines=5, max_pixels=4,
                                   leader_kw={"n_mp": n_mp}, summary_order="shuffle" if shuffled else None, newline=newline,
                                   image_order=image_order)
    imgs = info["names"]["imgs"]
    kind = ["memory", "vfs", "local"][i % 3]
    root = harness.unique_root(kind, rng=rng)
    url = synth.install(files, root, kind)
    sig = f"{level}|pols:{n_pols}|scans:{len(scans) if scans != [None] else 0}|mp:{n_mp}|shuf:{int(shuffled)}|{kind}|order:{image_order}"
    try:
        via_cache = i % 4 == 2
        try:
            if via_cache:
                # the assembled tree a user gets on later opens: image groups decoded from index caches written by an earlier open
                harness.open_tree(url, use_cache=False, create_cache=True, records_per_chunk=rng.choice([1, 3, 1024]))
                obs["trees_via_cache"] = 1
            tree = harness.open_tree(url, use_cache=via_cache, records_per_chunk=rng.choice([1, 2, 1024]))
        except Exception as e:
            return {"sig": sig, "evals": 1, "obs": obs, "nontrivial": False,
                    "violations": [{"what": f"open raised on a well-formed product: {harness.exc_sig(e)}",
                                    "detail": {"images": imgs, "shuffled": shuffled}}]}
        obs["products"] += 1
        if list(tree.children) != ["summary", "metadata", "imagery"]:
            violations.append({"what": f"children of / are {list(tree.children)}", "detail": {}})
        want_groups = [harness.group_name(n) for n in imgs]
        if len(set(want_groups)) != len(want_groups):
            raise AssertionError("generator produced colliding names")
        got_groups = list(tree["imagery"].children) if "imagery" in tree.children else []
        if got_groups != want_groups:
            violations.append({"what": f"/imagery children {got_groups} != expected {want_groups} (summary order)",
                               "detail": {"files": imgs}})
        want_meta = set(speclib.METADATA_GROUPS) - (set() if n_mp else {"map_projection"})
        got_meta = set(tree["metadata"].children) if "metadata" in tree.children else set()
        if got_meta != want_meta:
            violations.append({"what": f"/metadata children {sorted(got_meta)} != records present {sorted(want_meta)}", "detail": {}})
        want_sections = set(speclib.SUMMARY_SECTIONS.values())
        got_sections = set(tree["summary"].children) if "summary" in tree.children else set()
        if got_sections != want_sections:
            violations.append({"what": f"/summary children {sorted(got_sections)} != {sorted(want_sections)}", "detail": {}})
        want_attrs = set(speclib.VOLUME_ATTRS) | {"reference_document"}
        if set(tree.attrs) != want_attrs:
            violations.append({"what": f"root attribute names differ: extra {sorted(set(tree.attrs) - want_attrs)}, missing {sorted(want_attrs - set(tree.attrs))}", "detail": {}})
        elif tree.attrs["reference_document"] != speclib.REFERENCE_DOCUMENT:
            violations.append({"what": "reference_document link differs", "detail": {"got": tree.attrs["reference_document"]}})
        vol = files[info["names"]["vol"]]
        vd = refdec.record("vd", vol, 0)
        txt = refdec.record("txt", vol, 360 * (1 + info["volume"]["n_fp"]))
        for a, (rec, fld) in speclib.VOLUME_ATTRS.items():
            if a == "creation_datetime" or a not in tree.attrs:
                continue
            want = (vd if rec == "vd" else txt)[fld]
            if tree.attrs[a] != want:
                violations.append({"what": f"root attribute {a} = {tree.attrs[a]!r}, volume directory says {want!r}", "detail": {}})
        for node in tree.subtree:
            obs["nodes"] += 1
            if "coordinates" in node.attrs:
                violations.append({"what": f"bookkeeping attribute 'coordinates' left on {node.path}", "detail": {}})
        for n, g in zip(imgs, want_groups):
            if g not in got_groups:
                continue
            grp = tree[f"imagery/{g}"]
            im = refdec.image(files[n])
            pre = refdec.image_prefixes(files[n], im)
            obs["image_groups_checked"] += 1
            ds = grp.to_dataset(inherit=False)
            if "data" not in ds.data_vars:
                violations.append({"what": f"{g}: no 'data' variable", "detail": {}})
                continue
            if set(ds.data_vars) != {"data"}:
                violations.append({"what": f"{g}: per-line variables {sorted(set(ds.data_vars) - {'data'})} are not coordinates", "detail": {}})
            if "rows" not in ds.coords:
                violations.append({"what": f"{g}: 'rows' is not a coordinate", "detail": {}})
            else:
                want_rows = [p["sar_image_data_line_number"] for p in pre]
                if list(map(int, ds["rows"].values)) != want_rows:
                    violations.append({"what": f"{g}: line numbers {ds['rows'].values.tolist()} are not those of {n} ({want_rows})", "detail": {}})
            try:
                bits = refdec.bits_of(ds["data"].values)
                if bits.shape != refdec.samples_bits(im).shape or not np.array_equal(bits, refdec.samples_bits(im)):
                    other = [m for m in imgs if m != n and refdec.samples_bits(refdec.image(files[m])).shape == bits.shape
                             and np.array_equal(refdec.samples_bits(refdec.image(files[m])), bits)]
                    violations.append({"what": f"{g}: pixels are not those of {n}" + (f" but of {other[0]}" if other else ""), "detail": {}})
            except Exception as e:
                violations.append({"what": f"{g}: loading pixels raised {harness.exc_sig(e)}", "detail": {}})
        for sub in ("attitude", "rates"):
            p = f"metadata/attitude/{sub}"
            try:
                ds = tree[p].to_dataset(inherit=False)
                if "time" not in ds.coords:
                    violations.append({"what": f"/{p}: 'time' is not a coordinate", "detail": {}})
            except KeyError:
                violations.append({"what": f"/{p} missing", "detail": {}})
    finally:
        synth.uninstall(files, root, kind)
        if i % 4 == 2:
            import shutil

            from vf import cachelib

            shutil.rmtree(cachelib.user_cache_root(), ignore_errors=True)
    if i % 3 == 0:
        # the product directory is re-delivered: same root, same file names, new content in every file; second open in this process
        pols = list(dict.fromkeys(n.split("-")[1] for n in imgs))
        files2, info2 = gen.rich_product(rng, [seed, i, 1], level=level, n_images=len(pols), scans=scans, max_lines=5, max_pixels=4,
                                         leader_kw={"n_mp": 1 - n_mp}, newline=newline, image_order=image_order, pols=pols, scene=info["names"]["scene"])
        assert sorted(files2) == sorted(files), "replacement product must reuse the file names"
        url = synth.install(files2, root, kind)
        problems = []
        try:
            tree = harness.open_tree(url, use_cache=False, records_per_chunk=rng.choice([1, 2, 1024]))
            obs["replaced_leaves_compared"] = treecheck.check_product(tree, files2, info2, problems)
            obs["replaced_in_place"] = 1
        except Exception as e:
            problems.append(f"open raised on a well-formed product: {harness.exc_sig(e)}")
        finally:
            synth.uninstall(files2, root, kind)
        for p in problems[:4]:
            violations.append({"what": "[product replaced in place, second open in this process] " + p, "detail": {"files": info2["names"]["imgs"]}})
    return {"sig": sig, "evals": 1, "violations": violations, "obs": obs,
            "nontrivial": len(imgs) > 1 or scans != [None],
            "sample": {"level": level, "image_files": imgs, "groups": [harness.group_name(n) for n in imgs],
                       "shuffled_summary": shuffled, "newline": repr(newline), "fs": kind}}
