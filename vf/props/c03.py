"""C03 per-line and header image metadata — reference-model monitor over every image group.

Expectation from the image file's bytes + vf/spec/leaves_image.json: one entry per line in file order for every per-line
coordinate (scale factors as exact rationals, units, enum names, flags, line times by the calendar rule of C17), per-file
constants once as attributes, header-derived attributes present exactly when the descriptor field is non-blank; nothing
missing and nothing extra (the 'data' variable itself is C01's).
"""
import random

import numpy as np

from vf import contracts, gen, harness, synth, treecheck

ID = "C03"
LEVEL = "exploration"
RULE = ("seeded image files, both record types (signal data 544-byte / processed data 192-byte prefixes), 1..40 lines quick / "
        "1..200 thorough, every prefix field of every line random at once (0, maxima, MSB set, random 32/64-bit values, every "
        "enum member, valid (year, day-of-year, ms/us) stamps incl. boundary days and leap years), per-file constants constant "
        "within a file, the four optional header fields blank/filled in all 16 combinations and the interleaving id blank in "
        "a fifth of the files. evaluations = leaves compared; distinct = distinct (record type, optional-header mask, "
        "interleaving blank, line-count class) signatures plus value classes")
ASSUMPTIONS = ["vf/spec/leaves_image.json is the documented layout of the line prefixes and the image descriptor",
               "values inside the level-1.1 nested sub-structs are checked in whatever container surfaces (their representation is C12's finding)",
               "integer x 1e-6 / 1e-3 scale factors are compared within 2 ulp"]
REQUIRED_OBS = ["images", "leaves_compared", "lines"]
N = {"quick": 400, "thorough": 12000}


def n_cases(tier, seed):
    return N[tier]


def run_case(i, tier, seed):
    contracts.install()
    rng = random.Random(f"C03-{seed}-{i}")
    classes = {}
    level = ["1.1", "1.5", "3.1"][i % 3]
    typ = gen.LEVELS[level][1]
    mask = i % 16
    blank_il = i % 5 == 0
    maxl = 40 if tier == "quick" else 200
    lines = rng.choice([1, 2, rng.randrange(1, 12), rng.randrange(1, maxl + 1)])
    rpc = rng.choice([1, 3, 1024])
    if i % 10 == 7:
        # per-line metadata of images with more lines than one request covers: request sizes of 128 and more lines, with a
        # last request that holds only one or two lines
        lines = rng.choice([129, 130, 257, rng.randrange(131, 300)])
        rpc = rng.choice([128, lines - 1, lines - 2, 256 if lines > 256 else 128])
    names = gen.product_names(level, pols=("HH", "VV")[: 1 + i % 2])
    files = {}
    for k, n in enumerate(names["imgs"]):
        im, _ = gen.full_image(rng, np.random.default_rng([seed, i, k]), typ, lines + k, rng.randrange(1, 4), "index", classes,
                               optional_header=mask)
        if blank_il:
            im["fd"]["sar_related_data_in_the_record.interleaving_id"] = None
        files[n] = synth.image_bytes(im)
    files[names["vol"]] = synth.volume_bytes(gen.minimal_volume(len(names["imgs"]) + 2))
    files[names["led"]] = synth.leader_bytes(gen.minimal_leader())
    files[names["trl"]] = synth.trailer_bytes({})
    order = [names["vol"], names["led"], *names["imgs"], names["trl"]]
    files["summary.txt"] = synth.summary_text(
        synth.default_summary_entries(order, names["tag"], names["pid"], names["scene"], [(1, 1)])).encode()
    kind = ["memory", "vfs", "local"][i % 3]
    root = harness.unique_root(kind)
    url = synth.install(files, root, kind)
    problems = []
    n = 0
    try:
        try:
            tree = harness.open_tree(url, use_cache=False, records_per_chunk=rpc)
            for name in names["imgs"]:
                k, _ = treecheck.check_image_group(tree, name, files[name], problems)
                n += k
        except Exception as e:
            problems.append(f"open_alos2 raised on a well-formed product: {harness.exc_sig(e)}")
    finally:
        synth.uninstall(files, root, kind)
    detail = {"level": level, "lines": lines, "optional_header_mask": mask, "interleaving_blank": blank_il}
    violations = [{"what": p, "detail": detail} for p in problems[:6]]
    for f in contracts.drain():
        violations.append({"what": f"contract {f['contract']} failed", "detail": f["detail"]})
    lc = "1" if lines == 1 else "small" if lines < 12 else "large"
    sig = [f"{typ}|mask:{mask}|il:{int(blank_il)}|lines:{lc}"] + [f"class:{c}" for c in classes]
    return {"sig": sig, "evals": n, "violations": violations,
            "obs": {"images": len(names["imgs"]), "leaves_compared": n, "lines": lines * len(names["imgs"])},
            "sample": dict(detail, fs=kind, leaves_compared=n), "nontrivial": n > 0}
