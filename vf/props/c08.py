"""C08 cache codec exactness — round-trip identity, decoded both in-process and by a fresh interpreter.

(i)  image groups produced by the real reader from seeded products with extreme field values;
(ii) generated hierarchies (depth <= 3) with every supported dtype kind b,i,u,f,M,m,U, ranks 0-2, dimension sizes 0..4,
     nested list/tuple attributes.
The document written by the real encoder is decoded (a) in this process and (b) in a new interpreter reading it from
disk; both must equal the original at the xarray level (canonical leaf map: values to the bit, dtypes, dims, attrs with
the tuple/list distinction, variable order, node paths) and, for the image array, in url/shape/dtype/byte ranges/type code.
"""
import json
import os
import random
import subprocess

import numpy as np

from vf import canon, env, gen, harness, synth

ID = "C08"
LEVEL = "exploration"
RULE = ("case = batch of 12 (quick) / 40 (thorough) documents: one third real image groups (random field values pushed to "
        "extremes, levels 1.1/1.5), two thirds generated hierarchies (depth<=3; dtype kinds b,i8..i64,u8..u64,f16/32/64 with "
        "NaN/inf/-0.0, M and m in units D..ns incl. far dates, U incl. non-ASCII; ranks 0-2 with sizes 0..4; attrs nested "
        "lists/tuples/None/bool/huge ints/non-ASCII, a quarter of the attribute names coinciding with keys of the document's own structure "
        "such as data/dims/attrs/dtype/shape). Every document is decoded once more after the first decoded hierarchy was edited in place. evaluations = documents round-tripped (each decoded twice: same and "
        "fresh process); distinct = distinct (source, dtype kind/unit, rank, zero-size) variable classes seen")
ASSUMPTIONS = ["attributes are JSON-able plain Python (what the reader produces); no attribute dict carries a '__type__' key",
               "NaN is compared as canonical NaN (payload bits are not part of the statement)",
               "datetime arrays whose *first* element is NaT are generated as their own counted class",
               "values of one datetime array span less than 2^63 units (the offset encoding cannot represent more; observed: OverflowError for spans of about 292 years at ns resolution)"]
REQUIRED_OBS = ["documents", "fresh_process_decodes", "variables", "redecoded_after_edit"]
CASE_TIMEOUT = 600
N = {"quick": 96, "thorough": 3000}
BATCH = {"quick": 12, "thorough": 40}
ZERO_KEY = "C08/zero-size-array-loses-dimensions"


def n_cases(tier, seed):
    return N[tier]


# ---------------------------------------------------------------------------- generators

def rand_attr(rng, depth=0):
    r = rng.random()
    if depth < 2 and r < 0.25:
        items = [rand_attr(rng, depth + 1) for _ in range(rng.randrange(0, 4))]
        return items if rng.random() < 0.5 else tuple(items)
    c = rng.randrange(0, 9)
    return [None, True, False, rng.randrange(-10, 10), 2 ** 70 + rng.randrange(0, 9), -(2 ** 63), rng.random() * 1e300,
            float("nan") if rng.random() < 0.3 else float("-inf"), rng.choice(["µs", "Hz/µs^2", "σ⁰", "日本", "", "a b", 'q"uote'])][c]


# attribute names that coincide with keys of the index document's own structure (attributes share the document tree)
STRUCTURAL_NAMES = ["data", "dims", "attrs", "encoding", "dtype", "path", "url", "shape", "root", "byte_ranges", "type_code",
                    "units", "reference", "type", "variables", "groups", "coordinates_"]


def _attr_name(rng, default):
    return rng.choice(STRUCTURAL_NAMES) if rng.random() < 0.25 else default


def _scribble(group, rng):
    """edit a decoded hierarchy in place (what a user may do with a tree): attrs, nested lists, dims, byte ranges"""
    from ceos_alos2.hierarchy import Group

    def attrs_of(a):
        for k in list(a):
            v = a[k]
            if isinstance(v, list):
                v.append("scribble")
            a[k] = "scribble" if not isinstance(v, list) else v
        a["scribbled"] = True

    attrs_of(group.attrs)
    for name, item in list(group.data.items()):
        if isinstance(item, Group):
            _scribble(item, rng)
        else:
            attrs_of(item.attrs)
            d = item.data
            if isinstance(getattr(d, "byte_ranges", None), list) and d.byte_ranges:
                d.byte_ranges.pop()
            elif isinstance(d, np.ndarray) and d.size and d.flags.writeable and d.dtype.kind in "iuf":
                d.reshape(-1)[0] = 0


def rand_array(rng, shape, cls):
    n = int(np.prod(shape)) if shape else 1
    def pick(pool, dtype):
        return np.array([rng.choice(pool) for _ in range(n)], dtype=dtype).reshape(shape)
    if cls == "b":
        return pick([True, False], bool)
    if cls[0] in "iu":
        info = np.iinfo(cls)
        pool = [info.min, info.max, 0, 1, info.max - 1, info.min + 1, rng.randrange(info.min, info.max)]
        return pick(pool, cls)
    if cls[0] == "f":
        fi = np.finfo(cls)
        pool = [0.0, -0.0, float("nan"), float("inf"), float("-inf"), float(fi.max), float(fi.tiny), float(fi.eps), -1.5,
                rng.random(), 1 / 3]
        return pick(pool, cls)
    if cls[0] == "M":
        unit = cls[1:]
        pool = {"D": [0, 1, 16000, 29219, -1], "h": [0, 400000, -5], "m": [0, 26000000], "s": [0, 1, 2 ** 31, 1600000000, -1, 2524607999],
                "ms": [0, 1600000000123, -1], "us": [0, 1600000000123456], "ns": [0, 1600000000123456789, 2 ** 61, -(2 ** 61)]}[unit]
        a = np.array([rng.choice(pool) for _ in range(n)], dtype="int64").astype(f"datetime64[{unit}]").reshape(shape)
        return a
    if cls[0] == "m":
        unit = cls[1:]
        pool = [0, 1, -1, 86400, 2 ** 40, -(2 ** 40), rng.randrange(-10 ** 9, 10 ** 9)]
        return np.array([rng.choice(pool) for _ in range(n)], dtype="int64").astype(f"timedelta64[{unit}]").reshape(shape)
    if cls == "U":
        pool = ["", "a", "horizontal", "µs", "日本語", "with space", "x" * 17]
        return pick(pool, "U")
    raise ValueError(cls)


DTYPE_CLASSES = (["b"] + [f"{k}{b}" for k in "iu" for b in (8, 16, 32, 64)] + ["f16", "f32", "f64"] +
                 [f"M{u}" for u in ("D", "h", "m", "s", "ms", "us", "ns")] + [f"m{u}" for u in ("D", "s", "ms", "us", "ns")] + ["U"])


def np_name(cls):
    return {"f16": "float16", "f32": "float32", "f64": "float64"}.get(cls, cls if cls[0] not in "iu" else ("int" if cls[0] == "i" else "uint") + cls[1:])


def rand_hierarchy(rng, classes, depth=0, path="/"):
    from ceos_alos2.hierarchy import Group, Variable

    data = {}
    for k in range(rng.randrange(1, 5) if depth else rng.randrange(2, 6)):
        cls = rng.choice(DTYPE_CLASSES)
        rank = rng.choice([0, 1, 1, 2])
        shape = tuple(rng.choice([0, 1, 2, 3, 4]) if rng.random() < 0.85 else rng.choice([1, 2]) for _ in range(rank))
        dims = [f"d{j}_{s}" for j, s in enumerate(shape)]
        arr = rand_array(rng, shape, np_name(cls) if cls[0] not in "Mm" else cls)
        nat_first = False
        if cls[0] == "M" and arr.size and rng.random() < 0.08:
            flat = arr.reshape(-1).copy()
            flat[rng.choice([0, -1])] = np.datetime64("NaT")
            arr = flat.reshape(shape)
            nat_first = bool(np.isnat(arr.reshape(-1)[0]))
        as_list = arr.size > 0 and rank >= 1 and rng.random() < 0.2 and cls in ("b", "i64", "f64", "U")
        attrs = {_attr_name(rng, f"a{j}"): rand_attr(rng) for j in range(rng.randrange(0, 3))}
        if rng.random() < 0.3:
            attrs["units"] = rng.choice(["Hz/µs", "deg", "m^3 / s^2"])
        name = f"v{k}_{cls}"
        data[name] = Variable(dims if rng.random() < 0.8 or rank != 1 else dims[0], arr.tolist() if as_list else arr, attrs)
        zero = arr.size == 0
        classes.add(f"gen|{cls}|rank{rank}|{'zero' if zero else 'nz'}{'|list' if as_list else ''}{'|natfirst' if nat_first else ''}")
    if depth < 2:
        for k in range(rng.randrange(0, 3)):
            data[f"g{k}"] = rand_hierarchy(rng, classes, depth + 1, path.rstrip("/") + f"/g{k}")
    attrs = {_attr_name(rng, f"ga{j}"): rand_attr(rng) for j in range(rng.randrange(0, 4))}
    return Group(path=path, url=rng.choice([None, "memory:///somewhere"]), data=data, attrs=attrs)


# ---------------------------------------------------------------------------- canonical form of a Group hierarchy

def group_canon(group):
    """-> JSON-able dict: xarray-level canon + group paths/urls + image-array fields"""
    import ceos_alos2.xarray as cx
    from ceos_alos2.array import Array
    from ceos_alos2.hierarchy import Group, Variable

    root = Group(path="/", url=None, data={"g": group}, attrs={})
    arrays, paths, skip = {}, [], set()

    def walk(g, where):
        paths.append([where, g.path, g.url])
        for name, item in g.data.items():
            if isinstance(item, Group):
                walk(item, where + "/" + name)
            elif isinstance(item.data, Array):
                a = item.data
                arrays[f"{where}#{name}"] = {"url": a.url, "shape": canon.plain(a.shape), "dtype": str(a.dtype),
                                             "byte_ranges": canon.plain(a.byte_ranges), "type_code": a.type_code,
                                             "root": getattr(a.fs, "path", None)}
                skip.add(f"{where}#{name}")
    walk(root["g"], "/g")
    c = canon.canon(cx.to_datatree(root), load=True, skip_data=skip)
    c["__groups__"] = paths
    c["__arrays__"] = arrays
    return c


def shapes(group, where=""):
    from ceos_alos2.hierarchy import Group

    out = {}
    for name, item in group.data.items():
        if isinstance(item, Group):
            out.update(shapes(item, where + "/" + name))
        else:
            d = item.data
            out[f"{where}#{name}"] = None if type(d).__name__ == "Array" else (tuple(np.asarray(d).shape), np.asarray(d).dtype.kind,
                                                                               bool(np.asarray(d).size and np.asarray(d).dtype.kind == "M" and np.isnat(np.asarray(d).reshape(-1)[0])))
    return out


_FRESH = r'''
import json, sys
sys.path.insert(0, {verif!r})
from vf import env
env.bootstrap()
from vf.props import c08
from ceos_alos2.sar_image import caching
out = {{}}
for name, rpc in json.load(sys.stdin):
    try:
        g = caching.decode(open(name, encoding="utf-8").read(), records_per_chunk=rpc)
        out[name] = {{"ok": c08.group_canon(g)}}
    except BaseException as e:
        out[name] = {{"error": type(e).__name__ + ": " + str(e)[:300]}}
json.dump(out, sys.stdout)
'''


def run_case(i, tier, seed):
    from ceos_alos2.sar_image import caching, open_image
    import fsspec

    rng = random.Random(f"C08-{seed}-{i}")
    obs = {"documents": 0, "fresh_process_decodes": 0, "variables": 0, "image_groups": 0, "generated": 0, "dropped_known": 0}
    violations, classes = [], set()
    work = os.path.join(env.scratch(), f"c08-{i}")
    os.makedirs(work, exist_ok=True)
    docs = []  # (file, original canon, description, known keys)
    product = None
    for k in range(BATCH[tier]):
        known = []
        if k % 3 == 0:
            level = rng.choice(["1.1", "1.5"])
            files, info = gen.rich_product(rng, [seed, i, k], level=level, n_images=1, scans=[None], max_lines=6, max_pixels=4)
            root = harness.unique_root("memory", "c08")
            url = synth.install(files, root, "memory")
            try:
                mapper = fsspec.get_mapper(url)
                rpc = rng.choice([1, 3, 1024])
                group = open_image(mapper, info["names"]["imgs"][0], use_cache=False, records_per_chunk=rpc)
            finally:
                synth.uninstall(files, root, "memory")
            obs["image_groups"] += 1
            desc = {"source": "reader", "level": level, "image": list(info["images"].values())[0]}
            classes.add(f"reader|{level}")
        else:
            group = rand_hierarchy(rng, classes)
            rpc = None
            obs["generated"] += 1
            desc = {"source": "generated"}
        try:
            text = caching.encode(group)
        except Exception as e:
            violations.append({"what": f"encode raised: {harness.exc_sig(e)}", "detail": desc})
            continue
        obs["documents"] += 1
        try:
            text.encode("ascii")
        except UnicodeEncodeError:
            pass  # non-ASCII text is fine as long as a fresh process can read it back
        # known lossy classes are decided on the Group level, then removed from both sides so that
        # every other variable of the hierarchy is still compared
        try:
            dec = caching.decode(text, records_per_chunk=rpc)
        except Exception as e:
            violations.append({"what": f"decode of a freshly encoded document raised: {harness.exc_sig(e)}", "detail": desc})
            continue
        so, sd = shapes(group), shapes(dec)
        drop = set()
        for name, s in so.items():
            if s is None or sd.get(name) is None:
                continue
            if s[0] != sd[name][0] and len(s[0]) >= 2 and 0 in s[0]:
                known.append({"key": ZERO_KEY, "what": f"zero-size array of shape {s[0]} decoded with shape {sd[name][0]}", "detail": desc})
                drop.add(name)
        for name in drop:
            _remove(group, name)
            _remove(dec, name)
        real_known = known
        try:
            want = group_canon(group)
            got = group_canon(dec)
        except Exception as e:
            violations.append({"what": f"converting the round-tripped hierarchy to a DataTree raised: {harness.exc_sig(e)}", "detail": desc})
            continue
        obs["variables"] += len(so)
        d = canon.diff(want, got)
        if d:
            violations.append({"what": f"decode(encode(g)) differs from g at {len(d)} leaves, first: {d[0]}", "detail": dict(desc, diff=d[:5])})
        elif not drop:
            # the same document decoded once more after the first result was edited in place: still the encoded hierarchy
            try:
                _scribble(dec, rng)
                got2 = group_canon(caching.decode(text, records_per_chunk=rpc))
                obs["redecoded_after_edit"] = obs.get("redecoded_after_edit", 0) + 1
                d2 = canon.diff(want, got2)
                if d2:
                    violations.append({"what": f"second decode of the same document (after the first result was edited in place) differs from the original at {len(d2)} leaves, first: {d2[0]}",
                                       "detail": dict(desc, diff=d2[:5])})
            except Exception as e:
                violations.append({"what": f"second decode of the same document raised: {harness.exc_sig(e)}", "detail": desc})
        violations.extend(real_known)
        obs["dropped_known"] += len(drop)
        if drop:
            text = caching.encode(group)  # the document handed to the fresh process matches the reduced hierarchy
        fn = os.path.join(work, f"doc{k}.index")
        with open(fn, "w", encoding="utf-8") as f:
            f.write(text)
        docs.append((fn, want, desc, rpc))
    # fresh interpreter
    if docs:
        e = dict(os.environ)
        e["PYTHONDONTWRITEBYTECODE"] = "1"
        p = subprocess.run([env.PY, "-c", _FRESH.format(verif=env.VERIF)], input=json.dumps([[d[0], d[3]] for d in docs]),
                           capture_output=True, text=True, timeout=300, env=e, cwd=env.VERIF)
        if p.returncode != 0:
            return {"sig": sorted(classes), "evals": obs["documents"], "violations": violations, "obs": obs,
                    "inconclusive": f"fresh decoder process failed: {p.stderr[-300:]}"}
        res = json.loads(p.stdout)
        for fn, want, desc, _rpc in docs:
            r = res.get(fn, {})
            obs["fresh_process_decodes"] += 1
            if "error" in r:
                violations.append({"what": f"a fresh process could not decode the document: {r['error']}", "detail": desc})
                continue
            d = canon.diff(json.loads(json.dumps(want)), r["ok"])
            if d:
                violations.append({"what": f"document decoded by a fresh process differs from the original at {len(d)} leaves, first: {d[0]}",
                                   "detail": dict(desc, diff=d[:5])})
    import shutil

    shutil.rmtree(work, ignore_errors=True)
    sample = {"documents": len(docs), "example": docs[0][2] if docs else None, "classes": sorted(classes)[:8]}
    return {"sig": sorted(classes), "evals": obs["documents"], "violations": violations[:10], "obs": obs, "sample": sample}


def _remove(group, name):
    from ceos_alos2.hierarchy import Group

    path, var = name.split("#")
    g = group
    for part in [p for p in path.split("/") if p]:
        g = g.data[part]
    g.data.pop(var, None)
