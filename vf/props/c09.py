"""C09 crash / concurrent writer during cache creation — fault enumeration + differential canon.

Sources of on-disk states of an index file (all read back by the real reader with *default* options):
  prefix    every (thorough) / sampled (quick) byte-length prefix 0..len of the real index document, planted in the
            user cache dir, next to the image, or both, per image
  kill      really interrupted writers: a child process runs open_alos2(create_cache=True) and is
              sigxfsz : killed by SIGXFSZ at byte L (RLIMIT_FSIZE=L, default disposition restored): partial write + death
              efbig   : given EFBIG at byte L (Python's default ignore): 'disk full', exception propagates, prefix stays
              sigkill : SIGKILLed on entry to the index write(2) via strace fault injection (empty truncated file)
            each followed by a *fresh* reader process
  writers   every interleaving of two writers' real syscalls (open(O_TRUNC), write x c, close) performed with os.* on
            the real file, the file content after every step being a state (dedup by content)
Oracle: open_alos2(root) succeeds and its canon equals the uncached canon; then create_cache=True followed by
use_cache=True ends in a usable cache (equal tree, image not read at open time).
"""
import itertools
import json
import os
import random
import resource
import shutil
import signal
import subprocess

from vf import audit, cachelib, canon, env, gen, harness, synth

ID = "C09"
LEVEL = "fault_enumeration"
RULE = ("(every third repair is preceded by a wipe of the product's cache directory) "
        "products: one level-1.5 and one level-1.1 product with 2 images (local files). prefix states: lengths "
        "{0,1,2,len/2,len-2,len-1,len} + every cut next to / inside a non-ASCII byte + every 48th (quick) or every length (thorough) x location {user, adjacent, both} x image; "
        "real kills: 12 (quick) / 160 (thorough) children over the three modes at sampled limits; two-writer interleavings with "
        "2 (quick) / up to 4 (thorough) chunks. evaluations = states read back; non-trivial = state that is not the "
        "complete document and not 'absent'; distinct = distinct (source, location, content class) with content classes "
        "empty / strict prefix (by length decile) / NUL-holed / complete")
ASSUMPTIONS = ["CPython issues the index document as one write(2), so real kills produce {absent, empty, prefix-at-limit, complete}; the planted prefixes supply the rest of the prefix space",
               "both concurrent writers write the same document (it is a function of the image only)",
               "default options = use_cache True, create_cache False, records_per_chunk 1024"]
REQUIRED_OBS = ["states_read_back", "torn_states", "repairs_checked", "real_kills", "writer_interleavings"]
CASE_TIMEOUT = 900


def _plan(tier):
    cases = []
    step = 48 if tier == "quick" else 1
    nslices = 4 if tier == "quick" else 24
    for level in ("1.5", "1.1"):
        for img in (0, 1):
            for loc in ("user", "adjacent", "both"):
                for sl in range(nslices):
                    cases.append(("prefix", level, img, loc, (sl, nslices, step)))
    nkill = 12 if tier == "quick" else 160
    for k in range(nkill):
        cases.append(("kill", ["1.5", "1.1"][k % 2], k % 2, ["sigxfsz", "efbig", "sigkill"][k % 3], k))
    for level in ("1.5", "1.1"):
        for chunks in ((2,) if tier == "quick" else (2, 3, 4)):
            for loc in ("user", "adjacent"):
                cases.append(("writers", level, 0, loc, chunks))
    return cases


def n_cases(tier, seed):
    return len(_plan(tier))


def case_weight(i, tier, seed):
    k = _plan(tier)[i][0]
    return {"prefix": 10, "kill": 30, "writers": 25}[k]


def _product(seed, level):
    rng = random.Random(f"C09-prod-{seed}-{level}")
    files, info = gen.rich_product(rng, [seed, 9, int(float(level) * 10)], level=level, n_images=2, scans=[None],
                                   geoms=[(5, 3), (4, 2)], leader_kw={"att_len": 16 + 120 * 3, "fac_lens": [80, 90, 100, 110]})
    return files, info


class _Env:
    """one installed product + its real index documents + reference canon"""

    def __init__(self, seed, level):
        self.files, self.info = _product(seed, level)
        self.root = harness.unique_root("local", "c09")
        synth.install(self.files, self.root, "local")
        self.imgs = self.info["names"]["imgs"]
        shutil.rmtree(cachelib.user_cache_root(), ignore_errors=True)
        self.ref = canon.canon(harness.open_tree(self.root, use_cache=False))
        harness.open_tree(self.root, use_cache=False, create_cache=True)
        self.user = [cachelib.user_cache_file(self.root, n) for n in self.imgs]
        self.adj = [cachelib.adjacent_cache_file(self.root, n) for n in self.imgs]
        self.docs = [open(p, "rb").read() for p in self.user]
        self.clear()

    def clear(self):
        for p in self.user + self.adj:
            if os.path.exists(p):
                os.remove(p)

    def plant(self, img, loc, content):
        self.clear()
        targets = {"user": [self.user[img]], "adjacent": [self.adj[img]], "both": [self.user[img], self.adj[img]]}[loc]
        for p in targets:
            os.makedirs(os.path.dirname(p), exist_ok=True)
            with open(p, "wb") as f:
                f.write(content)

    def close(self):
        shutil.rmtree(self.root, ignore_errors=True)
        shutil.rmtree(cachelib.user_cache_root(), ignore_errors=True)


def content_class(content, doc):
    if content == doc:
        return "complete"
    if len(content) == 0:
        return "empty"
    if b"\0" in content:
        return "nul-holed"
    if doc.startswith(content):
        return f"prefix-decile{min(9, 10 * len(content) // len(doc))}"
    return "other"


def read_back(E, img, loc, content, obs, violations, source, check_repair):
    """plant + default open + compare (+ repair sequence)"""
    E.plant(img, loc, content)
    cls = content_class(content, E.docs[img])
    obs["states_read_back"] += 1
    if cls != "complete":
        obs["torn_states"] += 1
    detail = {"source": source, "image": img, "location": loc, "state": cls, "bytes_on_disk": len(content), "document_len": len(E.docs[img])}
    try:
        tree = harness.open_tree(E.root)
        d = canon.diff(E.ref, canon.canon(tree))
        if d:
            violations.append({"what": f"default open after a torn cache state ({cls}, {len(content)} bytes, {loc}) differs from the uncached tree: {d[0]}", "detail": detail})
    except Exception as e:
        violations.append({"what": f"default open_alos2 raised after a torn cache state ({cls}, {len(content)} of {len(E.docs[img])} bytes, {loc}): {harness.exc_sig(e)}", "detail": detail})
    if check_repair:
        obs["repairs_checked"] += 1
        try:
            if obs["repairs_checked"] % 3 == 0 and loc != "adjacent":
                # the user cleans up the debris first: the product's whole cache directory is removed, then the repair
                shutil.rmtree(os.path.dirname(E.user[img]), ignore_errors=True)
                obs["repairs_after_wiping_the_cache_directory"] = obs.get("repairs_after_wiping_the_cache_directory", 0) + 1
            harness.open_tree(E.root, create_cache=True)
            audit.arm((E.root,))
            try:
                tree = harness.open_tree(E.root, use_cache=True)
            finally:
                ev = audit.disarm()
            touched = [e for e in ev if e[0] == "open" and os.path.basename(e[1]) == E.imgs[img]]
            d = canon.diff(E.ref, canon.canon(tree))
            if d:
                violations.append({"what": f"after repairing create_cache=True the cached tree differs: {d[0]}", "detail": detail})
            if touched and loc != "adjacent" and cls != "complete":
                violations.append({"what": "create_cache=True after a torn state did not leave a usable cache (the image was parsed again by the following use_cache=True open)", "detail": detail})
            if loc in ("user", "both") and open(E.user[img], "rb").read() != E.docs[img]:
                violations.append({"what": "create_cache=True did not rewrite the torn user-directory cache with the complete document", "detail": detail})
        except Exception as e:
            violations.append({"what": f"repair sequence raised: {harness.exc_sig(e)}", "detail": detail})
    return f"{source}|{loc}|{cls}"


_CHILD = r'''
import os, resource, signal, sys
sys.path.insert(0, {verif!r})
from vf import env
env.bootstrap(cache_home={cache!r})
from vf import harness
mode, limit = {mode!r}, {limit}
if mode in ("sigxfsz", "efbig"):
    if mode == "sigxfsz":
        signal.signal(signal.SIGXFSZ, signal.SIG_DFL)
    resource.setrlimit(resource.RLIMIT_FSIZE, (limit, limit))
try:
    harness.open_tree({root!r}, use_cache=False, create_cache=True)
    print("COMPLETED")
except OSError as e:
    print("OSERROR", e.errno)
'''


def run_case(i, tier, seed):
    kind, level, img, loc, par = _plan(tier)[i]
    obs = {"states_read_back": 0, "torn_states": 0, "repairs_checked": 0, "real_kills": 0, "writer_interleavings": 0,
           "distinct_writer_states": 0, "fresh_reader_processes": 0, "prefix_lengths": 0}
    violations, sigs = [], []
    sample = None
    E = _Env(seed, level)
    try:
        doc = E.docs[img]
        if kind == "prefix":
            sl, nslices, step = par
            lengths = set(range(0, len(doc) + 1, step)) | {0, 1, 2, len(doc) // 2, len(doc) - 2, len(doc) - 1, len(doc)}
            # structural cut points: before, inside and after every non-ASCII (multi-byte) character of the document
            for pos, byte in enumerate(doc):
                if byte >= 0x80:
                    lengths |= {pos, pos + 1}
            lengths = sorted(lengths)
            mine = lengths[sl::nslices]
            for j, L in enumerate(mine):
                obs["prefix_lengths"] += 1
                sigs.append(read_back(E, img, loc, doc[:L], obs, violations, "prefix", check_repair=(j % 6 == 0)))
            sample = {"source": "prefix", "level": level, "image": E.imgs[img], "location": loc, "document_len": len(doc),
                      "lengths_in_this_slice": mine[:10]}
        elif kind == "writers":
            chunks = par
            cuts = [len(doc) * k // chunks for k in range(chunks + 1)]
            parts = [doc[a:b] for a, b in zip(cuts, cuts[1:])]
            ops = ["open"] + [f"w{k}" for k in range(chunks)] + ["close"]
            target = (E.user if loc == "user" else E.adj)[img]
            os.makedirs(os.path.dirname(target), exist_ok=True)
            states = {}
            n_inter = 0
            for order in set(itertools.permutations([0] * len(ops) + [1] * len(ops))):
                n_inter += 1
                if os.path.exists(target):
                    os.remove(target)
                fds, pos = {}, {0: 0, 1: 0}
                for w in order:
                    op = ops[pos[w]]
                    pos[w] += 1
                    if op == "open":
                        fds[w] = os.open(target, os.O_WRONLY | os.O_CREAT | os.O_TRUNC, 0o644)
                    elif op == "close":
                        os.close(fds.pop(w))
                    else:
                        os.write(fds[w], parts[int(op[1:])])
                    with open(target, "rb") as f:
                        c = f.read()
                    states.setdefault(c, order)
                for fd in fds.values():
                    os.close(fd)
            obs["writer_interleavings"] += n_inter
            obs["distinct_writer_states"] += len(states)
            for j, c in enumerate(sorted(states, key=len)):
                sigs.append(read_back(E, img, loc, c, obs, violations, f"writers{chunks}", check_repair=(j % 5 == 0)))
            sample = {"source": "two writers", "chunks": chunks, "interleavings": n_inter, "distinct_file_states": len(states),
                      "state_lengths": sorted({len(c) for c in states})[:12], "holed_states": sum(1 for c in states if b"\0" in c)}
        else:
            mode, k = loc, par
            rng = random.Random(f"C09-kill-{seed}-{k}")
            limit = rng.choice([1, 7, len(E.docs[0]) // 3, len(E.docs[0]) // 2, len(E.docs[0]) - 1, 4096, 512])
            E.clear()
            cache_home = os.environ["XDG_CACHE_HOME"]
            script = _CHILD.format(verif=env.VERIF, cache=cache_home, mode=mode, limit=limit, root=E.root)
            e = dict(os.environ)
            e["PYTHONDONTWRITEBYTECODE"] = "1"
            cmd = [env.PY, "-c", script]
            if mode == "sigkill":
                cmd = ["strace", "-f", "-o", "/dev/null", "-e", "trace=write", "-P", E.user[0],
                       "-e", "inject=write:signal=SIGKILL:when=1"] + cmd
            p = subprocess.run(cmd, capture_output=True, text=True, timeout=300, env=e, cwd=env.VERIF)
            obs["real_kills"] += 1
            sizes = [os.path.getsize(q) if os.path.exists(q) else None for q in E.user]
            died = p.returncode != 0 or "OSERROR" in p.stdout
            detail = {"mode": mode, "limit": limit, "child_returncode": p.returncode, "child_stdout": p.stdout.strip()[:60],
                      "index_sizes_after": sizes, "document_lens": [len(d) for d in E.docs]}
            if not died and mode != "efbig" and limit < len(E.docs[0]):
                return {"sig": "kill-did-not-happen", "evals": 0, "violations": [], "obs": obs,
                        "inconclusive": f"the writer was not interrupted: {detail}"}
            content0 = open(E.user[0], "rb").read() if sizes[0] is not None else None
            cls = "absent" if content0 is None else content_class(content0, E.docs[0])
            res = cachelib.fresh_process_canons({"default": (E.root, {}), "ref": (E.root, {"use_cache": False})}, cache_home)
            obs["fresh_reader_processes"] += 1
            obs["states_read_back"] += 1
            if cls not in ("complete", "absent"):
                obs["torn_states"] += 1
            sigs.append(f"kill-{mode}|user|{cls}")
            if "error" in res["ref"]:
                return {"sig": "ref-failed", "evals": 0, "violations": [], "obs": obs, "inconclusive": f"reference open failed: {res['ref']['error']}"}
            if "error" in res["default"]:
                violations.append({"what": f"fresh default open_alos2 raised after a really interrupted writer ({mode}, state {cls}): {res['default']['error']}", "detail": detail})
            else:
                d = canon.diff(res["ref"]["ok"], res["default"]["ok"])
                if d:
                    violations.append({"what": f"fresh default open after an interrupted writer ({mode}, {cls}) differs from uncached: {d[0]}", "detail": detail})
            # repair in yet another fresh process pair
            res2 = cachelib.fresh_process_canons({"repair": (E.root, {"create_cache": True}), "use": (E.root, {"use_cache": True})}, cache_home)
            obs["repairs_checked"] += 1
            for key in ("repair", "use"):
                if "error" in res2[key]:
                    violations.append({"what": f"{key} step after an interrupted writer raised: {res2[key]['error']}", "detail": detail})
                elif canon.diff(res["ref"]["ok"], res2[key]["ok"]):
                    violations.append({"what": f"{key} step after an interrupted writer differs from uncached", "detail": detail})
            if not all(os.path.exists(q) and open(q, "rb").read() == dd for q, dd in zip(E.user, E.docs)):
                violations.append({"what": "create_cache=True after an interrupted writer did not leave complete index documents", "detail": detail})
            sample = dict(detail, state=cls)
    finally:
        E.close()
    return {"sig": sigs, "evals": obs["states_read_back"], "violations": violations[:8], "obs": obs, "sample": sample,
            "nontrivial": obs["torn_states"] > 0}


def finish(results, tier, seed):
    return {"exhaustive": tier == "thorough",
            "exhaustive_subdomain": "thorough: every byte-length prefix 0..len of every image's index document x 3 locations; all interleavings of two writers with 2-4 chunks"}
