"""C19 concurrent reads — deterministic scheduler over real concurrent loads.

The scheduler owns every yield point (thread start, lock acquisition, and open/seek/read/close of the tracing
filesystem, each *before* it takes effect) and enumerates the interleavings of 2-3 real DataArray loads depth-first.
Oracle: each thread's values equal the sequential load of the same selection (bitwise); no state in which no thread is
runnable while some are unfinished.  Scenarios: same variable, different images of one tree, tree + pickled copy.
"""
import pickle
import random

import numpy as np

from vf import gen, harness, refdec, sched, synth, tracefs
from vf.props import c02

sched.patch_threading_locks()  # before the package under test is imported: locks it creates become scheduler-aware

ID = "C19"
LEVEL = "exploration"
RULE = ("scenarios {same variable, two images of one tree, tree + pickled copy} x {2 threads x 1 chunk: all interleavings of "
        "start/lock/open/seek/read/close and 2 threads x 2 chunks, enumerated completely by DFS, sharded by schedule prefix; "
        "3 threads x 1 chunk on three different images / one variable / tree+copy with the coarse yield points start/open/seek/read "
        "(34650 orders when uncontended)} plus line-level schedules (yield points at every statement start of array.py / xarray.py on "
        "the read path in addition to I/O and lock points; every schedule with at most 2 preemptions for 2 threads x 1 chunk (thorough also 2 x 2) and "
        "at most 1 for 3 threads, enumerated completely; thorough additionally samples bound 3 (2 threads) and bound 2 (3 threads) depth-first up to "
        "6000 / 4000 runs per shard) plus seeded random schedules of larger loads (2-4 threads on up to 4 images, 1-3 chunks "
        "each, mixed selections) and free-running threads (3-5 threads x 25-60 loads) with sleep(0) injected by a sys.monitoring LINE "
        "callback at statement starts of array.py / xarray.py (non-deterministic, seeds logged); thorough adds 3 threads x 2 chunks coarse (17 million orders: each of the 243 prefix subtrees sampled depth-first up to 1500 runs). evaluations = schedules executed; distinct = distinct executed interleavings "
        "(trace strings) per scenario; non-trivial = schedule in which at least two threads' file operations interleave or contend")
ASSUMPTIONS = ["files opened through the tracing filesystem have independent positions (like real files); a shared or cached "
               "handle would be corrupted by a seek/seek/read order",
               "yield points exist only where the real code performs I/O or takes its lock",
               "dask-backed loading is not installed and not exercised"]
REQUIRED_OBS = ["schedules", "distinct_interleavings", "threads_compared", "line_level_schedules", "shared_handle_schedules"]
CASE_TIMEOUT = 1500
PREFIX_DEPTH = 3

SCENARIOS = ["different-images", "same-variable", "pickled-copy"]


def _plan(tier):
    cases = []
    for sc in SCENARIOS:
        for p in _prefixes(2, PREFIX_DEPTH):
            cases.append(("dfs", sc, 2, 1, p))
    for sc in SCENARIOS:
        for p in _prefixes(2, PREFIX_DEPTH + 1):
            cases.append(("dfs", sc, 2, 2, p))
    # three threads, coarse yield points (start/open/seek/read; uncontended locks do not yield): 34650 orders on 3 images
    for sc in SCENARIOS:
        for p in _prefixes(3, PREFIX_DEPTH + 1):
            cases.append(("dfs-coarse", sc, 3, 1, p))
    if tier == "thorough":
        for p in _prefixes(3, PREFIX_DEPTH + 2):
            cases.append(("dfs-coarse", "different-images", 3, 2, p))
    # line-level yield points (every statement start of array.py / xarray.py on the read path, plus the I/O and lock points),
    # all schedules with at most `bound` preemptions, top-level branches dealt to shards
    for sc in SCENARIOS:
        for k in range(8):
            cases.append(("pb", sc, 2, 1, (2, k, 8, None)))       # complete
    for sc in SCENARIOS:
        cases.append(("pb", sc, 3, 1, (1, 0, 1, None)))          # complete
    if tier == "thorough":
        # deeper bounds are sampled: each shard explores its share of the top-level branches depth-first up to a run limit
        for sc in SCENARIOS:
            for k in range(32):
                cases.append(("pb", sc, 2, 1, (3, k, 32, 6000)))
            for k in range(32):
                cases.append(("pb", sc, 3, 1, (2, k, 32, 4000)))
            for k in range(32):
                cases.append(("pb", sc, 2, 2, (2, k, 32, None)))  # complete
    # the filesystem hands out ONE shared file object per path (what fsspec's memory filesystem does): loads of the same
    # variable share a position and rely on the lock; different images have different objects
    for sc in ("same-variable", "pickled-copy", "different-images"):
        cases.append(("shared", sc, 2, 1, [0]))
        cases.append(("shared", sc, 2, 2, [0]))
    nrand = 48 if tier == "quick" else 600
    for k in range(nrand):
        cases.append(("random", SCENARIOS[k % 3], 2 + k % 3, 1 + k % 3, k))
    # complementary, non-deterministic: free-running threads with sleep(0) injected at source lines of the read path
    for k in range(8 if tier == "quick" else 160):
        cases.append(("free", SCENARIOS[k % 3], 3 + k % 3, 0, k))
    return cases


def _prefixes(nthreads, depth):
    import itertools

    return [list(p) for p in itertools.product(range(nthreads), repeat=depth)]


def n_cases(tier, seed):
    return len(_plan(tier))


def case_weight(i, tier, seed):
    kind, sc, nt, nchunks, p = _plan(tier)[i]
    if kind == "random":
        return 3
    if kind == "shared":
        return 60
    if kind == "free":
        return 40
    if kind == "pb":
        return 30 if p[3] is None else 120
    return {"different-images": 120, "same-variable": 2, "pickled-copy": 2}[sc] * (10 if nchunks == 2 else 1) * (4 if nt == 3 else 1)


_product = {}


def _setup(seed, lines, rpc):
    """one product with two distinct images on the tracing filesystem; opened once per process"""
    key = (seed, lines, rpc)
    if key in _product:
        return _product[key]
    sched.install_lock()
    tracefs.HOOK = sched.fs_hook
    rng = random.Random(f"C19-prod-{seed}-{lines}")
    names = gen.product_names("1.5", pols=("HH", "HV", "VH", "VV"))
    files = {}
    for k, n in enumerate(names["imgs"]):
        im = gen.minimal_image(np.random.default_rng([seed, lines, k]), "IU2", lines, 4, "random")
        files[n] = synth.image_bytes(im)
    files[names["vol"]] = synth.volume_bytes(gen.minimal_volume(4))
    files[names["led"]] = synth.leader_bytes(gen.minimal_leader())
    files[names["trl"]] = synth.trailer_bytes({})
    order = [names["vol"], names["led"], *names["imgs"], names["trl"]]
    files["summary.txt"] = synth.summary_text(
        synth.default_summary_entries(order, names["tag"], names["pid"], names["scene"], [(4, lines)])).encode()
    root = harness.unique_root("vfs", "c19")
    url = synth.install(files, root, "vfs")
    tree = harness.open_tree(url, use_cache=False, records_per_chunk=rpc)
    copy = pickle.loads(pickle.dumps(tree))
    exp = {g: c02.expected_values(refdec.image(files[n])) for g, n in zip(("HH", "HV", "VH", "VV"), names["imgs"])}
    _product[key] = (tree, copy, exp)
    return _product[key]


def _jobs(scenario, tree, copy, exp, sels):
    """-> (callables, expected arrays)"""
    jobs, want = [], []
    for t, sel in enumerate(sels):
        if scenario == "different-images":
            src, g = tree, ("HH", "HV", "VH", "VV")[t % 4]
        elif scenario == "same-variable":
            src, g = tree, "HH"
        else:
            src, g = (tree, copy)[t % 2], "HH"
        jobs.append(lambda src=src, g=g, sel=sel: np.asarray(src[f"imagery/{g}/data"].isel(rows=sel).values))
        want.append(exp[g][sel])
    return jobs, want


def _checker(want):
    def check(res):
        for i, w in enumerate(want):
            r = res.get(i)
            if isinstance(r, BaseException):
                return f"thread {i} raised {type(r).__name__}: {str(r)[:160]}"
            if r is None:
                return f"thread {i} produced no result"
            if r.shape != w.shape or r.tobytes() != np.ascontiguousarray(w).tobytes():
                return f"thread {i} loaded values that differ from the sequential load (shape {r.shape} vs {w.shape})"
        return None
    return check


def run_case(i, tier, seed):
    kind, scenario, nthreads, nchunks, p = _plan(tier)[i]
    obs = {"schedules": 0, "distinct_interleavings": 0, "threads_compared": 0, "deadlocks": 0, "hung": 0, "skipped_prefixes": 0}
    violations = []
    rpc = 3
    lines = 3 * max(4, nchunks * nthreads)
    tree, copy, exp = _setup(seed, lines, rpc)
    sched.COARSE[0] = kind == "dfs-coarse"
    sched.FINE[0] = False
    tracefs.SHARED_HANDLES[0] = kind == "shared"
    if kind == "shared":
        kind = "dfs"
        obs["shared_handle_schedules"] = 0
        p = []
    if kind == "pb":
        return _pb_case(i, tier, seed, scenario, nthreads, nchunks, p, tree, copy, exp, rpc, obs)
    if kind == "free":
        return _free_case(i, tier, seed, scenario, nthreads, p, tree, copy, exp, lines, obs)
    if kind in ("dfs", "dfs-coarse"):
        sels = [slice(t * nchunks * rpc, (t + 1) * nchunks * rpc) for t in range(nthreads)]
        jobs, want = _jobs(scenario, tree, copy, exp, sels)
        # sequential reference through the real code (no scheduler): must equal the model too
        tracefs.HOOK = None
        for j, w in zip(jobs, want):
            assert j().tobytes() == np.ascontiguousarray(w).tobytes(), "sequential load differs from the model (C01 territory)"
        tracefs.HOOK = sched.fs_hook
        # 3 threads x 2 chunks has 17 million coarse orders: every prefix subtree is sampled depth-first up to a run limit
        sampled = kind == "dfs-coarse" and nthreads == 3 and nchunks == 2
        r = sched.explore(jobs, _checker(want), prefix=p, min_depth=len(p), limit=1500 if sampled else 200000)
        if r["invalid_prefix"]:
            obs["skipped_prefixes"] += 1
            return {"sig": "prefix-not-in-tree", "evals": 0, "violations": [], "obs": obs, "nontrivial": False}
        obs["schedules"] += r["runs"]
        if "shared_handle_schedules" in obs:
            obs["shared_handle_schedules"] += r["runs"]
            tracefs.SHARED_HANDLES[0] = False
        obs["distinct_interleavings"] += r["distinct"]
        obs["interleaved"] = obs.get("interleaved", 0) + r["interleaved"]
        obs["threads_compared"] += r["runs"] * nthreads
        obs["deadlocks"] += r["deadlocks"]
        obs["hung"] += r["hung"]
        for v in r["violations"]:
            violations.append({"what": f"[{scenario}, {nthreads} threads x {nchunks} chunk(s){', one shared file object per path' if 'shared_handle_schedules' in obs else ''}] {v['what']}",
                               "detail": {"schedule": v.get("schedule"), "trace": v.get("trace")}})
        inconclusive = None
        if r["hung"] and not r["deadlocks"]:
            inconclusive = "threads did not finish within the join timeout without a scheduler-visible deadlock"
        return {"sig": f"{kind}{'-shared-handle' if 'shared_handle_schedules' in obs else ''}{'-sampled' if sampled else ''}|{scenario}|{nthreads}x{nchunks}", "evals": r["runs"], "violations": violations, "obs": obs,
                "inconclusive": inconclusive,
                "sample": {"scenario": scenario, "threads": nthreads, "chunks_per_thread": nchunks, "prefix": p,
                           "schedules_in_this_subtree": r["runs"], "max_depth": r["max_depth"]} if r["runs"] > 1 else None}
    # seeded random schedules of larger, mixed loads
    rng = random.Random(f"C19-{seed}-{i}")
    traces = set()
    for _ in range(8 if tier == "quick" else 12):
        sels = []
        for t in range(nthreads):
            a = rng.randrange(0, lines - 1)
            b = rng.randrange(a + 1, min(lines, a + nchunks * rpc) + 1)
            sels.append(rng.choice([slice(a, b), slice(a, b, 2), sorted(rng.sample(range(lines), min(lines, nchunks + 1)))]))
        jobs, want = _jobs(scenario, tree, copy, exp, sels)
        choices = [rng.randrange(0, nthreads) for _ in range(200)]
        s, res, hung = sched.run(choices, jobs)
        obs["schedules"] += 1
        obs["threads_compared"] += nthreads
        traces.add(tuple(s.trace))
        if s.deadlock is not None:
            obs["deadlocks"] += 1
            violations.append({"what": f"[{scenario}] deadlock: {s.deadlock}", "detail": {"choices": choices[:40]}})
            break
        if hung:
            obs["hung"] += 1
            return {"sig": "hung", "evals": obs["schedules"], "violations": violations, "obs": obs,
                    "inconclusive": "threads did not finish within the join timeout"}
        msg = _checker(want)(res)
        if msg:
            violations.append({"what": f"[{scenario}, random schedule] {msg}",
                               "detail": {"selections": [repr(x) for x in sels], "trace": [f"{t}:{l}" for t, l in s.trace][:60]}})
    obs["distinct_interleavings"] += len(traces)
    obs["interleaved"] = obs.get("interleaved", 0) + sum(1 for t in traces if sched.is_interleaved(t))
    return {"sig": f"random|{scenario}|{nthreads}x{nchunks}", "evals": obs["schedules"], "violations": violations[:4], "obs": obs,
            "sample": {"scenario": scenario, "threads": nthreads, "kind": "random schedules", "distinct": len(traces)}}


def _pb_case(i, tier, seed, scenario, nthreads, nchunks, p, tree, copy, exp, rpc, obs):
    bound, k, nsh, run_limit = p
    if not sched.install_line_yields():
        return {"sig": "pb-unavailable", "evals": 0, "violations": [], "obs": obs,
                "inconclusive": "sys.monitoring LINE events are not available for the line-level scheduler"}
    sels = [slice(t * nchunks * rpc, (t + 1) * nchunks * rpc) for t in range(nthreads)]
    jobs, want = _jobs(scenario, tree, copy, exp, sels)
    tracefs.HOOK = sched.fs_hook
    sched.FINE[0] = True
    try:
        r = sched.explore_pb(jobs, _checker(want), bound=bound, shard=(k, nsh), limit=run_limit or 200000)
    finally:
        sched.FINE[0] = False
    obs["schedules"] += r["runs"]
    obs["distinct_interleavings"] += r["distinct"]
    obs["interleaved"] = obs.get("interleaved", 0) + r["interleaved"]
    obs["threads_compared"] += r["runs"] * nthreads
    obs["deadlocks"] += r["deadlocks"]
    obs["hung"] += r["hung"]
    obs["stalls"] = obs.get("stalls", 0) + r.get("stalls", 0)
    obs["line_level_schedules"] = r["runs"]
    obs["line_level_steps"] = r["steps"]
    violations = [{"what": f"[{scenario}, {nthreads} threads x {nchunks} chunk(s), line-level yield points, <= {bound} preemptions] {v['what']}",
                   "detail": {"schedule": v.get("schedule"), "trace_tail": v.get("trace")}} for v in r["violations"]]
    inconclusive = None
    if r["hung"] and not r["deadlocks"]:
        inconclusive = "threads did not finish within the join timeout without a scheduler-visible deadlock"
    elif not r["complete"] and run_limit is None:
        inconclusive = f"preemption-bounded enumeration stopped at the run limit ({r['runs']} runs)"
    return {"sig": f"pb{bound}{'' if run_limit is None else '-sampled'}|{scenario}|{nthreads}x{nchunks}", "evals": r["runs"], "violations": violations, "obs": obs,
            "inconclusive": inconclusive,
            "sample": {"scenario": scenario, "threads": nthreads, "chunks_per_thread": nchunks, "yield_points": "lines+io+lock",
                       "preemption_bound": bound, "shard": [k, nsh], "schedules": r["runs"], "steps_per_schedule": r["max_depth"]}}


_LINE_EVENTS = [0, 0]


def _install_line_yields(rng):
    """sys.monitoring LINE callback on the repository's array.py / xarray.py: yield the GIL at random statement starts"""
    import sys
    import time

    mon = sys.monitoring
    tool = 3
    try:
        mon.use_tool_id(tool, "vf-yield")
    except ValueError:
        pass  # already ours

    def on_line(code, line):
        fn = code.co_filename
        if not (fn.endswith("ceos_alos2/array.py") or fn.endswith("ceos_alos2/xarray.py")):
            return mon.DISABLE
        _LINE_EVENTS[0] += 1
        if rng.random() < 0.35:
            _LINE_EVENTS[1] += 1
            time.sleep(0 if rng.random() < 0.8 else 0.0002)

    mon.register_callback(tool, mon.events.LINE, on_line)
    mon.set_events(tool, mon.events.LINE)
    return tool


def _remove_line_yields(tool):
    import sys

    mon = sys.monitoring
    mon.set_events(tool, 0)
    mon.register_callback(tool, mon.events.LINE, None)
    mon.free_tool_id(tool)


def _free_case(i, tier, seed, scenario, nthreads, k, tree, copy, exp, lines, obs):
    import threading

    rng = random.Random(f"C19-free-{seed}-{k}")
    tracefs.HOOK = None
    sched.CUR[0] = None
    _LINE_EVENTS[0] = _LINE_EVENTS[1] = 0
    violations = []
    loads_per_thread = 25 if tier == "quick" else 60
    plans = []
    for t in range(nthreads):
        plan = []
        for _ in range(loads_per_thread):
            a = rng.randrange(0, lines - 1)
            b = rng.randrange(a + 1, lines + 1)
            sel = rng.choice([slice(a, b), slice(a, b, 2), sorted(rng.sample(range(lines), rng.randrange(1, 5))), a])
            if scenario == "different-images":
                src, g = tree, ("HH", "HV", "VH", "VV")[(t + rng.randrange(2)) % 4]
            elif scenario == "same-variable":
                src, g = tree, "HH"
            else:
                src, g = (tree, copy)[t % 2], ("HH", "HV")[rng.randrange(2)]
            plan.append((src, g, sel))
        plans.append(plan)
    results = [[] for _ in range(nthreads)]
    barrier = threading.Barrier(nthreads)

    def work(t):
        barrier.wait()
        for src, g, sel in plans[t]:
            try:
                results[t].append(np.asarray(src[f"imagery/{g}/data"].isel(rows=sel).values))
            except BaseException as e:  # noqa: BLE001
                results[t].append(e)

    tool = _install_line_yields(random.Random(f"yield-{seed}-{k}"))
    try:
        ths = [threading.Thread(target=work, args=(t,), daemon=True) for t in range(nthreads)]
        for th in ths:
            th.start()
        hung = False
        for th in ths:
            th.join(120)
            hung = hung or th.is_alive()
    finally:
        _remove_line_yields(tool)
        tracefs.HOOK = sched.fs_hook
    obs["schedules"] += 1
    obs["free_running_loads"] = obs.get("free_running_loads", 0) + sum(len(r) for r in results)
    obs["line_events"] = obs.get("line_events", 0) + _LINE_EVENTS[0]
    obs["yields_injected"] = obs.get("yields_injected", 0) + _LINE_EVENTS[1]
    if hung:
        return {"sig": "free-hung", "evals": 1, "violations": [], "obs": obs,
                "inconclusive": "free-running threads did not finish within 120 s (wall clock only ever yields inconclusive)"}
    for t in range(nthreads):
        for (src, g, sel), r in zip(plans[t], results[t]):
            obs["threads_compared"] += 1
            w = np.asarray(exp[g][sel])
            if isinstance(r, BaseException):
                violations.append({"what": f"[free-running, {scenario}] load of {g}[{sel}] raised {type(r).__name__}: {str(r)[:120]}", "detail": {"seed": k}})
            elif r.shape != w.shape or r.tobytes() != np.ascontiguousarray(w).tobytes():
                violations.append({"what": f"[free-running, {scenario}] load of {g}[{sel}] differs from the sequential load", "detail": {"seed": k}})
    obs["distinct_interleavings"] += 1
    return {"sig": f"free|{scenario}|{nthreads}", "evals": 1, "violations": violations[:4], "obs": obs,
            "sample": {"kind": "free-running stress", "scenario": scenario, "threads": nthreads, "loads": sum(len(r) for r in results),
                       "line_events": _LINE_EVENTS[0], "yields_injected": _LINE_EVENTS[1]}}


def finish(results, tier, seed):
    per = {}
    for r in results:
        if isinstance(r.get("sig"), str) and r["sig"].startswith(("dfs", "pb")) and "-sampled" not in r["sig"]:
            per[r["sig"]] = per.get(r["sig"], 0) + r.get("evals", 0)
    total = sum(r.get("obs", {}).get("interleaved", 0) for r in results)
    return {"exhaustive": False, "interleavings_enumerated_completely": per, "distinct_nontrivial": total,
            "exhaustive_subdomain": "every interleaving of the yield points of the listed (scenario, threads x chunks) configurations"}
