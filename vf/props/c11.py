"""C11 bounded, grouped reads — offline checker over the tracing filesystem's event log.

Group extents come from the model (record start/length known to the encoder), never from the code.
Load rule : every read lies inside the file and inside the byte extent of exactly one rpc-group that
            overlaps the selected line span; at most one read per group; nothing but the image file
            is touched (any event on another path, any write attempt, is a violation).
Open rule : first read is the 720-byte descriptor at 0; then at most ceil(lines/rpc) reads, each starting
            at or after the end of the previous one (front to back, non-overlapping), all inside the file.
"""
import math
import os
import random

import numpy as np

from vf import audit, gen, harness, refdec, selections, synth, tracefs
from vf.props import c02

ID = "C11"
LEVEL = "exploration"
RULE = ("(a third of the cases through fsspec buffered files with block sizes 64..65536; half with filled ScanSAR burst / pixel-range header fields; "
        "one image larger than 128 MiB) "
        "products on the tracing filesystem (vfs://): per case one image (both sample types, lines 1..300, rpc classes 1/div/"
        "nondiv/N-1/N/N+1/2^40) opened once (open-time log checked) and loaded through seeded C02-style selections "
        "(ints, slices incl. negative steps, lists, masks, vectorised, sel), plus an exhaustive int/slice block on small images; "
        "each load's event log is checked offline. non-trivial = a load that issued at least one read; distinct = distinct "
        "(type, rpc class, selection class, number of groups touched) signatures")
ASSUMPTIONS = ["file objects of the tracing filesystem have independent positions like real files",
               "metadata calls (info/exists) are not reads"]
REQUIRED_OBS = ["loads_checked", "read_events", "open_logs_checked", "buffered_file_cases", "burst_header_cases", "images_over_128MiB", "trees_via_cache"]
CASE_TIMEOUT = 600

NCASES = {"quick": 160, "thorough": 3000}
NSEL = {"quick": 120, "thorough": 350}


def n_cases(tier, seed):
    return NCASES[tier]


def check_open_log(log, path, im, rpc, size):
    errs = []
    rd = [e for e in log if e[0] == "read" and e[1] == path]
    others = [e for e in log if e[0] in ("seek",) and e[1] == path]
    if not rd or (rd[0][2], rd[0][3]) != (0, 720):
        errs.append(f"first read is not the 720-byte descriptor: {rd[:1]}")
        return errs
    n = im["n_records"]
    eff = min(rpc, n) if n else 1
    limit = math.ceil(n / eff) if n else 0
    body = rd[1:]
    if len(body) > limit:
        errs.append(f"{len(body)} reads after the descriptor, limit ceil({n}/{rpc}) = {limit}")
    prev_end = 720
    for e in body:
        _, _, pos, nreq, got = e
        if pos < prev_end:
            errs.append(f"read at {pos} starts before the end of the previous one ({prev_end}): not front to back")
        if nreq is None or nreq < 0:
            errs.append(f"unbounded read request n={nreq} at {pos}")
            nreq = got
        if pos + nreq > size:
            errs.append(f"read [{pos},{pos + nreq}) beyond the file size {size}")
        prev_end = pos + (nreq if nreq and nreq > 0 else got)
    return errs


def check_load_log(log, path, im, rpc, size, selected_lines):
    errs = []
    n = im["n_records"]
    eff = max(1, min(rpc, n))
    reclen = im["reclen"]
    for e in log:
        if e[0] in ("pipe", "rm", "mkdir", "makedirs", "touch", "mv"):
            errs.append(f"write attempt {e}")
        elif len(e) > 1 and e[1] != path:
            errs.append(f"another product file was touched during a pixel load: {e[:3]}")
    rd = [e for e in log if e[0] == "read" and e[1] == path]
    if len(selected_lines) == 0:
        if rd:
            errs.append(f"{len(rd)} read(s) for an empty selection")
        return errs, 0
    lo, hi = min(selected_lines), max(selected_lines)
    g_lo, g_hi = lo // eff, hi // eff
    seen = {}
    for e in rd:
        _, _, pos, nreq, got = e
        if nreq is None or nreq < 0:
            errs.append(f"unbounded read n={nreq} at {pos}")
            continue
        if nreq == 0:
            continue
        end = pos + nreq
        if pos < 0 or end > size:
            errs.append(f"read [{pos},{end}) outside the file [0,{size})")
            continue
        g = (pos - 720) // (eff * reclen) if pos >= 720 else -1
        g_start = 720 + g * eff * reclen
        g_end = 720 + min((g + 1) * eff, n) * reclen
        if g < 0 or not (g_start <= pos and end <= g_end):
            errs.append(f"read [{pos},{end}) is not confined to one group of {eff} lines (group {g}: [{g_start},{g_end}))")
            continue
        if not (g_lo <= g <= g_hi):
            errs.append(f"read for group {g} outside the selected span's groups {g_lo}..{g_hi}")
        seen[g] = seen.get(g, 0) + 1
    for g, c in seen.items():
        if c > 1:
            errs.append(f"{c} reads for group {g} (at most one allowed)")
    return errs, len(seen)


class _Recorder:
    """NumPy-backed control backend that records the line keys xarray's lazy layer hands to a BASIC backend.

    The span a backend is *asked* for is decided by xarray (array indexers become min..max slices, negative
    steps are normalised, and in the D15 region the layer asks for lines the user never selected); taking it
    from a control backend keeps the oracle independent of the repository and of that upstream behaviour.
    """

    def __init__(self, shape, dtype, level="BASIC"):
        import xarray as xr
        from xarray.backends import BackendArray
        from xarray.core import indexing

        rec = self
        self.keys = []
        base = np.zeros(shape, dtype)
        support = getattr(indexing.IndexingSupport, level)
        wrap = {"OUTER": indexing.OuterIndexer, "OUTER_1VECTOR": indexing.OuterIndexer, "VECTORIZED": indexing.VectorizedIndexer}.get(level)

        class NP(BackendArray):
            def __init__(self):
                self.shape = base.shape
                self.dtype = base.dtype

            def __getitem__(self, key):
                def raw(k):
                    rec.keys.append(k)
                    if wrap is None or all(isinstance(x, (int, np.integer, slice)) for x in k):
                        return base[k]
                    return indexing.NumpyIndexingAdapter(base)[wrap(k)]

                return indexing.explicit_indexing_adapter(key, self.shape, support, raw)

        self.da = xr.DataArray(xr.Variable(("rows", "columns"), indexing.LazilyIndexedArray(NP())))

    def lines_for(self, sel, template):
        """-> list of requested line numbers, or None when the lazy layer never reached the backend"""
        del self.keys[:]
        da = self.da.assign_coords(rows=template["rows"].variable)
        try:
            selections.apply(da, sel).values
        except Exception:
            if not self.keys:
                return None
        if not self.keys:
            return []
        n = self.da.shape[0]
        out = []
        for k in self.keys:
            out.extend(np.atleast_1d(np.arange(n)[k[0]]).tolist())
        return out


def run_case(i, tier, seed):
    rng = random.Random(f"C11-{seed}-{i}")
    obs = {"loads_checked": 0, "read_events": 0, "open_logs_checked": 0, "loads_with_reads": 0, "loads_rejected_above_backend": 0}
    violations, sigs = [], []
    typ = ["IU2", "C*8"][i % 2]
    if i % 5 == 0:
        lines, pixels = rng.randrange(1, 6), rng.randrange(1, 5)
        rpc = rng.randrange(1, lines + 2)
        sels = [{"mode": "isel", "rows": r, "columns": ["all"]} for r in selections.all_ints(lines) + selections.all_slices(lines)]
        if tier == "quick":
            sels = rng.sample(sels, min(len(sels), 300))
    else:
        lines = rng.choice([rng.randrange(1, 20), rng.randrange(20, 300)])
        pixels = rng.randrange(1, 16)
        rpc = rng.choice(harness.rpc_candidates(lines, rng))
        sels = [selections.random_selection(rng, lines, pixels) for _ in range(NSEL[tier])]
    if i == 1 or (tier == "thorough" and i % 500 == 1):
        # one image larger than 128 MiB (records of ~1 MB): the request count at open time must still be ceil(lines / rpc)
        typ, lines, pixels = "IU2", rng.randrange(136, 142), 499900
        rpc = rng.choice([1024, lines, 70])
        sels = [{"mode": "isel", "rows": r, "columns": ["all"]} for r in (["int", 0], ["int", lines - 1], ["slice", 3, 5, None], ["slice", 69, 72, None])]
        obs["images_over_128MiB"] = 1
    tracefs.reset_log()
    # optional header content must not change how requests are grouped: ScanSAR burst description / pixel range filled in half of the cases
    fd = None
    if i % 2 == 0 or i % 7 == 0:
        burst = rng.randrange(2, 9)
        fd = {"prefix_suffix_data_locators.number_of_burst_data": str(rng.randrange(1, 40)),
              "prefix_suffix_data_locators.number_of_lines_per_burst": str(burst),
              "scansar_burst_data_information.number_of_overlap_lines_with_adjacent_bursts": str(rng.randrange(0, burst)),
              "prefix_suffix_data_locators.maximum_data_range_of_pixel": str(rng.randrange(1, 65536))}
    files, names, root, url = c02.build(seed, 10_000_000 + i, typ, lines, pixels, kind="vfs", fd=fd)
    # a third of the cases are served through fsspec buffered files with a block size (what http / s3 style filesystems hand out)
    tracefs.BUFFERED[0] = rng.choice([64, 512, 4096, 65536]) if i % 3 == 2 else None
    if tracefs.BUFFERED[0]:
        obs["buffered_file_cases"] = 1
    if fd:
        obs["burst_header_cases"] = 1
    sample = None
    try:
        img = names["imgs"][0]
        path = f"{root}/{img}"
        size = len(files[img])
        im = refdec.image(files[img])
        via_cache = i % 5 == 3 and not (i == 1)
        if via_cache:
            # the tree used for the loads comes from an index cache written with ANOTHER request size (and the product was
            # opened through that cache once before): grouping must follow the request size of the current open
            import shutil

            from vf import cachelib

            other = rng.choice([r for r in harness.rpc_candidates(lines, rng) if min(r, lines) != min(rpc, lines)] or [rpc])
            harness.open_tree(url, use_cache=False, create_cache=True, records_per_chunk=other)
            harness.open_tree(url, use_cache=True, records_per_chunk=other)
            obs["trees_via_cache"] = 1
        tracefs.reset_log()
        tree = harness.open_tree(url, use_cache=via_cache, records_per_chunk=rpc)
        open_log = list(tracefs.LOG)
        if via_cache:
            errs = [f"image file read at open time although a cache exists: {e[2:]}" for e in open_log if e[0] == "read" and e[1] == path][:2]
        else:
            errs = check_open_log(open_log, path, im, rpc, size)
        obs["open_logs_checked"] += 1
        obs["read_events"] += len([e for e in open_log if e[0] == "read"])
        for m in errs:
            violations.append({"what": f"open-time reads: {m}", "detail": {"type": typ, "lines": lines, "rpc": rpc,
                               "reads": [e[2:] for e in open_log if e[0] == "read" and e[1] == path][:12]}})
        lazy = tree["imagery/HH/data"]
        recorder = _Recorder((lines, pixels), np.uint16)
        # what xarray would ask of a backend that declares more than BASIC support (the package may do so one day): used only
        # when a load does not fit the BASIC request, so that the oracle does not depend on the declared support level
        others = [_Recorder((lines, pixels), np.uint16, lv) for lv in ("OUTER", "VECTORIZED")]
        for sel in sels:
            want = recorder.lines_for(sel, lazy)
            alternatives = None
            if want is None:
                # xarray rejects the selection before any BASIC backend is consulted: no read may happen at all
                # (unless a backend with wider support would legitimately have been asked for lines)
                obs["loads_rejected_above_backend"] += 1
                want = []
            tracefs.reset_log()
            if via_cache:
                audit.arm(())
            try:
                selections.apply(lazy, sel).values
            except Exception:
                # whether this selection may raise is C02's business; the reads it issued are still checked
                pass
            finally:
                if via_cache:
                    foreign = [e for e in audit.disarm() if e[0] == "open" and isinstance(e[1], str) and os.path.basename(e[1]) == img]
                    if foreign and len(violations) < 8:
                        violations.append({"what": f"loading pixels opened {foreign[0][1]!r} through the host's file API: the image is read through another filesystem than the product's",
                                           "detail": {"selection": sel, "product_url": url}})
            log = list(tracefs.LOG)
            errs, ngroups = check_load_log(log, path, im, rpc, size, want)
            if errs:
                for rec2 in others:
                    w2 = rec2.lines_for(sel, lazy)
                    if w2 is not None:
                        e2, g2 = check_load_log(log, path, im, rpc, size, w2)
                        if not e2:
                            errs, ngroups = e2, g2
                            obs["judged_by_wider_support_request"] = obs.get("judged_by_wider_support_request", 0) + 1
                            break
            obs["loads_checked"] += 1
            nread = len([e for e in log if e[0] == "read"])
            obs["read_events"] += nread
            if nread:
                obs["loads_with_reads"] += 1
                sigs.append(f"{typ}|rpc:{harness.rpc_class(rpc, lines)}|{selections.sel_class(sel)}|groups:{min(ngroups, 5)}")
            if sample is None and nread > 1:
                sample = {"type": typ, "shape": [lines, pixels], "rpc": rpc, "selection": sel,
                          "events": [list(e[:1]) + list(e[2:]) for e in log][:12]}
            for m in errs[:3]:
                if len(violations) < 8:
                    violations.append({"what": f"load reads: {m}",
                                       "detail": {"type": typ, "shape": [lines, pixels], "rpc": rpc, "selection": sel,
                                                  "reads": [e[2:] for e in log if e[0] == "read"][:12]}})
        # ---- backend level: the image object below xarray's lazy layer also accepts lists of lines (unsorted, with
        # duplicates); xarray itself only hands it ints and slices.  If the object cannot be reached or does not accept
        # lists any more, this block observes nothing (it is not a required monitor).
        backend = None
        try:
            node = lazy.variable._data
            for _ in range(4):
                if type(node).__name__ == "Array" and hasattr(node, "byte_ranges"):
                    backend = node
                    break
                node = getattr(node, "array")
        except Exception:
            backend = None
        if backend is not None:
            for _ in range(40 if tier == "quick" else 150):
                k = rng.randrange(1, 8)
                rows = [rng.randrange(0, lines) for _ in range(k)]
                tracefs.reset_log()
                try:
                    backend[(rows, slice(None))]
                except Exception:
                    continue
                log = list(tracefs.LOG)
                errs, ngroups = check_load_log(log, path, im, rpc, size, rows)
                obs["backend_level_loads"] = obs.get("backend_level_loads", 0) + 1
                obs["read_events"] += len([e for e in log if e[0] == "read"])
                for m in errs[:2]:
                    if len(violations) < 8:
                        violations.append({"what": f"load reads (image object indexed with a list of lines {rows}): {m}",
                                           "detail": {"type": typ, "shape": [lines, pixels], "rpc": rpc,
                                                      "reads": [e[2:] for e in log if e[0] == "read"][:12]}})
    finally:
        tracefs.BUFFERED[0] = None
        synth.uninstall(files, root, "vfs")
        if i % 5 == 3:
            import shutil

            from vf import cachelib

            shutil.rmtree(cachelib.user_cache_root(), ignore_errors=True)
    return {"sig": sigs, "evals": obs["loads_checked"], "violations": violations, "obs": obs, "sample": sample,
            "nontrivial": obs["loads_with_reads"] > 0}
