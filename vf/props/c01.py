"""C01 pixel fidelity — reference-model monitor.

Each case synthesises one product (several image files of different geometry),
installs it on one filesystem kind, opens it through open_alos2 with several
records_per_chunk values and compares every loaded element, bit for bit, with
the sample the independent encoder wrote at that (line, pixel); declared shape
and dtype are compared before loading.  Contracts on read_chunk / read_metadata /
Array.__getitem__ / compute_chunk_offsets stay on.
"""
import random

import numpy as np

from vf import contracts, gen, harness, refdec, synth

ID = "C01"
LEVEL = "exploration"
RULE = ("seeded products: sample type x geometry class (1x1,1xN,Nx1,NxM; lines up to 40 quick / 600 thorough) x "
        "bit-pattern class (random raw 32/16-bit patterns incl. NaN payloads, inf, -0.0, denormals; zeros; all-ones; "
        "edges) x filesystem (local path, file://, memory://, vfs://, lvfs://, zip archive) x records_per_chunk class (1, divisor, "
        "non-divisor, N-1, N, N+1, 2N+3, 2^40); plus the exhaustive block lines 1..Lmax x rpc 1..Lmax+1 x both types. "
        "Every random case opens three products: P, a twin with equal names/geometry elsewhere, and a replacement of P in place "
        "(same filesystem, root and names, other samples); 40% of the cases carry fully random line prefixes whose fill / "
        "data-pixel counts lie around the line width. Special geometries: wide (1500-2600 pixels) and tall (400-700 lines) images, images whose full group of rpc lines spans exactly 2**k bytes (k = 12..20 quick, ..23 thorough), one image larger than 64 MiB; a third of the twins live under the same root string on another filesystem; directory names carry URL/shell-special characters in 30% of the cases. A case is non-trivial when at least one image was loaded and compared; distinct = distinct "
        "(type, geometry, pattern, filesystem, rpc class) signatures")
ASSUMPTIONS = ["only well-formed image files are generated (record length = prefix + pixels x sample size)",
               "expected samples are taken from the bytes the independent encoder wrote"]
REQUIRED_OBS = ["elements_compared", "contracts_ok", "replaced_in_place", "huge_images", "pow2_span_images", "twins_under_the_same_root_string"]

PATTERNS = ["random", "random", "edges", "zeros", "ones", "index", "finite"]
N_RANDOM = {"quick": 360, "thorough": 6000}
EXH = {"quick": 6, "thorough": 12}


def n_cases(tier, seed):
    return N_RANDOM[tier] + 2 * EXH[tier]


def _geometry(rng, tier):
    big = 40 if tier == "quick" else 600
    c = rng.choice(["1x1", "1xN", "Nx1", "NxM", "NxM", "NxM", "big"])
    r = rng.random()
    if r < 0.04:
        return rng.randrange(18, 41), rng.randrange(1500, 2600)  # wide: the record area exceeds typical I/O block sizes (64 KiB)
    if r < 0.08:
        return rng.randrange(400, 700), rng.randrange(1, 3)  # tall and narrow: many records per block
    if tier == "thorough" and rng.random() < 0.01:
        return rng.randrange(1500, 5001), rng.randrange(1, 3)  # beyond the default chunk size of 1024 lines
    if c == "1x1":
        return 1, 1
    if c == "1xN":
        return 1, rng.randrange(2, 30)
    if c == "Nx1":
        return rng.randrange(2, 30), 1
    if c == "big":
        return rng.randrange(20, big + 1), rng.randrange(1, 12)
    return rng.randrange(2, 14), rng.randrange(2, 14)


def run_case(i, tier, seed):
    contracts.install()
    rng = random.Random(f"C01-{seed}-{i}")
    nrand = N_RANDOM[tier]
    obs = {"elements_compared": 0, "opens": 0, "images": 0}
    violations = []
    sigs = []
    forced_rpcs, special = None, None
    if i >= nrand:
        # exhaustive block: one case per (type, lines) and all rpc 1..Lmax+1
        j = i - nrand
        typ = ["IU2", "C*8"][j % 2]
        L = EXH[tier]
        geoms_list = [[(lines, 1 + (lines * 7 + 3) % 5)] for lines in range(1, L + 1)]
        rpcs_for = lambda n: list(range(1, L + 2))
        level = "1.5" if typ == "IU2" else "1.1"
        kind = "memory"
        patterns = ["random"]
        products = [(g, patterns[0]) for g in geoms_list]
    else:
        typ = rng.choice(["IU2", "C*8"])
        level = rng.choice(["1.5", "3.1"]) if typ == "IU2" else "1.1"
        kind = harness.FS_KINDS[i % 6]
        k = rng.choice([1, 1, 2, 3, 4])
        geoms0 = [_geometry(rng, tier) for _ in range(k)]
        pat0 = rng.choice(PATTERNS)
        if i % 19 == 7:
            # round sizes: one full group of rpc lines spans exactly 2**k bytes (4 KiB .. 1 MiB quick, .. 8 MiB thorough)
            g = harness.pow2_geometry(typ, rng.randrange(12, 21 if tier == "quick" else 24), rng)
            if g:
                geoms0, forced_rpcs = [(g[0], g[1])], sorted({g[2], 2 * g[2], 1024})
                special = "pow2-span"
        if i == nrand - 1 or (tier == "thorough" and i % 1000 == 999):
            # one image larger than 64 MiB, default request size and one small one
            geoms0 = [(rng.randrange(68, 72), 124900)] if typ == "C*8" else [(rng.randrange(270, 280), 124900)]
            forced_rpcs, special, pat0 = [1024, 16], "huge", "index"
        # the second product has the same file names and geometry but other samples and lives elsewhere:
        # anything remembered per file *name* across opens shows up as the first product's pixels
        # the third product REPLACES the first one in place (same filesystem, root, names, geometry; other samples):
        # anything memoised per location across opens shows up as the first product's pixels
        products = [(geoms0, pat0), (geoms0, "random" if pat0 != "random" else "index"), (geoms0, "finite" if pat0 != "finite" else "edges")]
        rpcs_for = lambda n: harness.rpc_candidates(n, rng)
    sample = None
    fixed_rpcs = None
    rich = i < nrand and rng.random() < 0.4 and special is None
    root0 = None
    if special == "huge":
        products = products[:1]
        obs["huge_images"] = 1
    if special == "pow2-span":
        obs["pow2_span_images"] = 1
    # for a third of the cases the twin lives under the SAME root string on another filesystem (memory / vfs / lvfs all name
    # their roots '/<name>'): anything keyed by the path without the filesystem confuses the two
    same_root = i < nrand and i % 3 == 0 and special is None
    for pidx, (geoms, pattern) in enumerate(products):
        if i < nrand:
            kind = harness.FS_KINDS[(i + (pidx % 2)) % 6]
            if same_root:
                kind = ["memory", "vfs", "lvfs"][(i // 3 + (pidx % 2)) % 3]
        pols = ["HH", "HV", "VH", "VV"][: len(geoms)]
        names = gen.product_names(level, pols=pols)
        files = {}
        for k, (n, (lines, pixels)) in enumerate(zip(names["imgs"], geoms)):
            rng_np = np.random.default_rng([seed, i, k, pidx])
            if rich:
                # every prefix field random; the fill / data pixel counts of each line take values around the line width
                im, _ = gen.full_image(rng, rng_np, typ, lines, pixels, pattern)
                for pre in im["prefix"]:
                    for fname in ("actual_count_of_left_fill_pixels", "actual_count_of_data_pixels", "actual_count_of_right_fill_pixels"):
                        pre[fname] = rng.choice([0, 1, rng.randrange(0, pixels + 1), pixels, pixels + 1, 2 ** 32 - 1])
            else:
                im = gen.minimal_image(rng_np, typ, lines, pixels, pattern)
            files[n] = synth.image_bytes(im)
        files[names["vol"]] = synth.volume_bytes(gen.minimal_volume(len(geoms) + 2))
        files[names["led"]] = synth.leader_bytes(gen.minimal_leader())
        files[names["trl"]] = synth.trailer_bytes({})
        order = [names["vol"], names["led"], *names["imgs"], names["trl"]]
        files["summary.txt"] = synth.summary_text(
            synth.default_summary_entries(order, names["tag"], names["pid"], names["scene"], [(1, 1)])).encode()
        root = root0 if ((pidx == 2 or (pidx == 1 and same_root)) and root0) else harness.unique_root(kind, rng=rng)
        if pidx == 1 and same_root:
            obs["twins_under_the_same_root_string"] = obs.get("twins_under_the_same_root_string", 0) + 1
        if pidx == 0:
            root0 = root
        if pidx == 2:
            obs["replaced_in_place"] = obs.get("replaced_in_place", 0) + 1
        url = synth.install(files, root, kind)
        try:
            expected = {n: refdec.image(files[n]) for n in names["imgs"]}
            rpcs = sorted(set(r for n, (l, p) in zip(names["imgs"], geoms) for r in rpcs_for(l)))
            if i < nrand and len(rpcs) > 4:
                rpcs = sorted(rng.sample(rpcs, 4))
            if forced_rpcs:
                rpcs = forced_rpcs
            if i < nrand:
                fixed_rpcs = fixed_rpcs or rpcs
                rpcs = fixed_rpcs
            for rpc in rpcs:
                try:
                    tree = harness.open_tree(url, use_cache=False, records_per_chunk=rpc)
                except Exception as e:
                    violations.append({"what": f"open_alos2 raised on a well-formed product: {harness.exc_sig(e)}",
                                       "detail": {"geoms": geoms, "type": typ, "rpc": rpc, "fs": kind}})
                    continue
                obs["opens"] += 1
                for n, (lines, pixels) in zip(names["imgs"], geoms):
                    g = harness.group_name(n)
                    exp = expected[n]
                    bits = refdec.samples_bits(exp)
                    sigs.append(f"{typ}|{special or harness.geom_class(lines, pixels)}|{pattern}|{kind}|rpc:{harness.rpc_class(rpc, lines)}"
                                + ("|rich-prefix" if rich else "") + ("|replaced" if pidx == 2 else ""))
                    try:
                        da = tree[f"imagery/{g}/data"]
                    except KeyError as e:
                        violations.append({"what": f"image group {g} missing", "detail": {"file": n}})
                        continue
                    want_dtype = np.dtype("uint16") if typ == "IU2" else np.dtype("complex64")
                    if tuple(da.shape) != (lines, pixels) or tuple(da.dims) != ("rows", "columns"):
                        violations.append({"what": f"declared shape/dims {da.shape}/{da.dims} != header ({lines},{pixels})",
                                           "detail": {"file": n, "rpc": rpc}})
                    try:
                        vals = da.values
                    except Exception as e:
                        violations.append({"what": f"loading raised: {harness.exc_sig(e)}",
                                           "detail": {"geom": (lines, pixels), "type": typ, "rpc": rpc, "fs": kind}})
                        continue
                    obs["images"] += 1
                    if vals.shape != (lines, pixels) or vals.dtype != want_dtype:
                        violations.append({"what": f"loaded shape/dtype {vals.shape}/{vals.dtype} != ({lines},{pixels})/{want_dtype}",
                                           "detail": {"file": n, "rpc": rpc}})
                        continue
                    got = refdec.bits_of(vals)
                    obs["elements_compared"] += int(got.size)
                    if not np.array_equal(got, bits):
                        bad = np.argwhere(got != bits)
                        r, c = map(int, bad[0])
                        violations.append({
                            "what": f"sample mismatch at line {r}, word {c}: stored 0x{int(bits[r, c]):x} read 0x{int(got[r, c]):x} "
                                    f"({len(bad)} of {got.size} words differ)",
                            "detail": {"geom": (lines, pixels), "type": typ, "rpc": rpc, "fs": kind, "pattern": pattern}})
                    if sample is None:
                        sample = {"type": typ, "level": level, "fs": kind, "geometries": geoms, "pattern": pattern,
                                  "rpcs": rpcs, "first_row_bits": [hex(int(x)) for x in bits[0][:4]]}
        finally:
            synth.uninstall(files, root, kind)
    for f in contracts.drain():
        violations.append({"what": f"contract {f['contract']} failed", "detail": f["detail"]})
    obs["contract_evals"] = sum(contracts.EVALS.values())
    obs["contracts_ok"] = int(contracts.ok())  # evaluated, or not attachable at all (listed in the sample)
    obs["contracts_unavailable"] = len(contracts.UNAVAILABLE)
    contracts.EVALS.clear()
    return {"sig": sigs, "evals": obs["images"], "violations": violations, "obs": obs, "sample": sample,
            "nontrivial": obs["images"] > 0}
