"""C20 blanks and padding — reference model for blanked fields + metamorphic canon equality under re-padding.

(a) nullable fields (numeric or free-text value fields; counts, lengths, code/flag columns and date-time texts are exempt)
    are overwritten with blanks in the file bytes — one at a time, in random subsets, all at once — and the complete
    C03/C04/C16 expectation (blank -> NaN / -1 / '' / header attribute absent) is recomputed from the bytes and compared;
    an exception is a violation.
(b) the same product is written three times: padding areas blank, and twice with random content of the area's character
    class (printable ASCII for text areas, a valid number for numeric spares, any bytes for binary ones; record tails of the
    attitude / data-quality / facility records included); the canonical leaf maps of the three trees must be identical.
(c) thorough: byte-by-byte influence map of the leader and of one image prefix: each byte is replaced by another character
    of its field's class and the set of changed leaves must be a subset of the leaves the spec assigns to the owning field
    (empty for padding and ignored fields).
"""
import random
import re

import numpy as np

from vf import canon, expect, gen, harness, refdec, synth, treecheck

ID = "C20"
LEVEL = "exploration"
RULE = ("seeded products (levels 1.1/1.5, all records randomly filled). (a) blanking: every nullable field of leader, volume "
        "directory and image descriptor alone (quick: a rotating quarter of them per run, thorough: all), random subsets "
        "(p = 0.1, 0.5) and all at once; (b) re-padding: blank vs two random fills of every spare/blank/reserved area and record "
        "tail; (c) thorough: influence map over every byte of one leader and one image prefix. evaluations = products opened; "
        "distinct = distinct (mode, record, field | subset size class) signatures")
ASSUMPTIONS = ["nullable = ASCII numeric / text fields that are not counts, lengths, enumerated codes, flag columns (fields the spec "
               "converts to bool) or date-time texts; binary prefix fields have no blank representation",
               "text areas get printable ASCII only; numeric spares get valid numbers"]
REQUIRED_OBS = ["blank_single", "blank_subset", "repad_triples", "leaves_compared", "influence_bytes"]
CASE_TIMEOUT = 900
N = {"quick": 150, "thorough": 1500}

_EXEMPT_NAMES = re.compile(r"(^|\.)(time\.day_of_year|time\.millisecond_of_day)$")


def flag_sources():
    out = set()
    for node in expect.spec("leader")["nodes"]:
        for v in list(node["attrs"].values()) + list(node["vars"].values()):
            if v.get("conv") == "bool_int":
                s = v["src"]
                out.add(s["template"].split(":")[-1] if isinstance(s, dict) else (s[0] if isinstance(s, list) else s).split(":")[-1])
    return out


def nullable(rec, f, flags):
    if synth.base_kind(f) not in ("A_int", "A_float", "A_str", "A_complex") or f["kind"] == "enum":
        return False
    n = f["name"]
    if n.startswith("preamble.") or (rec, n) in gen.CONSTRAINED or gen.is_padding(f):
        return False
    if n in flags or _EXEMPT_NAMES.search(n):
        return False
    if rec == "led_fd" or rec == "trl_head":
        return not n.endswith("number_of_records") and not n.endswith("record_length")
    return True


def nullable_sources(files, info):
    """-> list of (file name, absolute offset, width, source name)"""
    flags = flag_sources()
    out = []
    names = info["names"]
    refdec.leader(files[names["led"]])
    for s, (off, w, rec) in sorted(refdec.ABS.items()):
        f = synth.field(rec, s.split(":")[-1])
        if not s.startswith("fac") and nullable(rec, f, flags):
            out.append((names["led"], off, w, s))
            if synth.base_kind(f) == "A_complex":
                # the two halves of a complex column are separate numeric fields of the format: each may be blank alone
                out.append((names["led"], off, w // 2, s + "#real-half"))
                out.append((names["led"], off + w // 2, w // 2, s + "#imaginary-half"))
    refdec.volume(files[names["vol"]])
    for s, (off, w, rec) in sorted(refdec.ABS.items()):
        f = synth.field(rec, s.split(":")[-1])
        if nullable(rec, f, flags) and s != "vd:number_of_text_records_in_volume_directory":
            out.append((names["vol"], off, w, s))
    for n in names["imgs"][:1]:
        refdec.image_sources(files[n])
        for s, (off, w, rec) in sorted(refdec.ABS.items()):
            if rec == "img_fd" and nullable(rec, synth.field(rec, s.split(":")[-1]), flags):
                out.append((n, off, w, s))
    return out


def check_product(files, info, problems, kind="memory"):
    root = harness.unique_root(kind, "c20")
    url = synth.install(files, root, kind)
    n = 0
    try:
        tree = harness.open_tree(url, use_cache=False)
        a, _ = treecheck.check_metadata(tree, files[info["names"]["led"]], problems)
        b, _ = treecheck.check_root(tree, files[info["names"]["vol"]], problems)
        n = a + b
        for name in info["names"]["imgs"]:
            c, _ = treecheck.check_image_group(tree, name, files[name], problems)
            n += c
        return n, tree
    except Exception as e:
        problems.append(f"open_alos2 raised: {harness.exc_sig(e)}")
        return n, None
    finally:
        synth.uninstall(files, root, kind)


def n_cases(tier, seed):
    return N[tier] + (64 if tier == "thorough" else 16)


def run_case(i, tier, seed):
    rng = random.Random(f"C20-{seed}-{i}")
    obs = {"blank_single": 0, "blank_subset": 0, "repad_triples": 0, "leaves_compared": 0, "fields_blanked": 0, "influence_bytes": 0}
    violations, sigs = [], []
    level = ["1.1", "1.5"][i % 2]
    if i >= N[tier]:
        if tier == "quick":
            # a thinned influence map: 16 of the 64 slices, every 5th position of each (the thorough tier substitutes every byte)
            return _influence_case((i - N[tier]) * 4 + seed % 4, tier, seed, rng, obs, thin=5)
        return _influence_case(i - N[tier], tier, seed, rng, obs)
    mode = ["single", "subset", "repad"][i % 3]
    sample = None
    if mode in ("single", "subset"):
        files, info = gen.rich_product(rng, [seed, i], level=level, n_images=1, scans=[None], max_lines=3, max_pixels=2,
                                       leader_kw={"n_mp": 1, "designator": gen.DESIGNATORS[(i // 3) % 4], "att_len": 16 + 120 * 4, "n_ch": rng.choice([1, 2, 9])})
        fields = nullable_sources(files, info)
        if mode == "single":
            k = (i // 3)
            mine = fields[k % 50::50]  # every nullable field is blanked alone at least once per 50 'single' cases
            plans = [[f] for f in mine]
        else:
            plans = [[f for f in fields if rng.random() < p] for p in (0.1, 0.5)] + [fields]
        for plan in plans:
            mod = {k2: bytearray(v) for k2, v in files.items()}
            for name, off, w, s in plan:
                mod[name][off:off + w] = b" " * w
            mod = {k2: bytes(v) for k2, v in mod.items()}
            problems = []
            n, _ = check_product(mod, info, problems)
            obs["leaves_compared"] += n
            obs["fields_blanked"] += len(plan)
            if mode == "single":
                obs["blank_single"] += 1
                sigs.append(f"single|{plan[0][3].split(':')[0]}|{plan[0][3].split(':')[-1]}")
            else:
                obs["blank_subset"] += 1
                sigs.append(f"subset|{level}|{min(len(plan) * 10 // max(1, len(fields)), 10)}")
            for p in problems[:3]:
                violations.append({"what": f"with {'field ' + plan[0][3] if len(plan) == 1 else str(len(plan)) + ' nullable fields'} blank: {p}",
                                   "detail": {"blanked": [x[3] for x in plan][:8], "level": level}})
            if sample is None:
                sample = {"mode": mode, "blanked": [x[3] for x in plan][:6], "nullable_fields_in_product": len(fields), "leaves_compared": n}
    else:
        trees = []
        for variant, sp in (("blank", False), ("random-1", random.Random(f"pad1-{seed}-{i}")), ("random-2", random.Random(f"pad2-{seed}-{i}"))):
            r = random.Random(f"C20-prod-{seed}-{i}")
            files, info = gen.rich_product(r, [seed, i], level=level, n_images=2, scans=[None], max_lines=4, max_pixels=3, spare=sp)
            kind = ["memory", "vfs", "local"][(i // 3) % 3]
            root = harness.unique_root(kind, "c20p")
            url = synth.install(files, root, kind)
            try:
                trees.append((variant, canon.canon(harness.open_tree(url, use_cache=False)), files))
            except Exception as e:
                violations.append({"what": f"product with {variant} padding could not be opened: {harness.exc_sig(e)}", "detail": {"level": level}})
            finally:
                synth.uninstall(files, root, kind)
        obs["repad_triples"] += 1
        sigs.append(f"repad|{level}|{info['leader']['n_mp']}|{info['leader']['designator'] if info['leader']['n_mp'] else '-'}")
        if len(trees) == 3:
            differing_bytes = sum(1 for a, b in zip(trees[0][2][info["names"]["led"]], trees[1][2][info["names"]["led"]]) if a != b)
            if differing_bytes == 0:
                return {"sig": sigs, "evals": 0, "violations": [], "obs": obs, "inconclusive": "re-padding did not change a single byte"}
            for variant, c, _ in trees[1:]:
                d = canon.diff(trees[0][1], c)
                obs["leaves_compared"] += len(c)
                if d:
                    violations.append({"what": f"padding content changed the tree: blank vs {variant} padding differ at {len(d)} leaves, first {d[0]}",
                                       "detail": {"diff": d[:4], "level": level}})
            sample = {"mode": "repad", "level": level, "leader_bytes_changed_by_padding": differing_bytes, "leaves": len(trees[0][1])}
    return {"sig": sigs, "evals": obs["blank_single"] + obs["blank_subset"] + 3 * obs["repad_triples"], "violations": violations[:8],
            "obs": obs, "sample": sample}


# ---------------------------------------------------------------------------- (c) influence map (thorough)

def _owner_leaves():
    """source field -> set of leaf keys it may influence, from the frozen leaf spec"""
    owners = {}
    for node in expect.spec("leader")["nodes"]:
        for kind, items in (("@", node["attrs"]), ("#", node["vars"])):
            for name, v in items.items():
                srcs = []
                if "src" in v:
                    s = v["src"]
                    srcs = [s] if isinstance(s, str) else s if isinstance(s, list) else [s["template"]]
                srcs += v.get("srcs", [])
                if v.get("time") == "attitude":
                    srcs += ["att:{i}:time.day_of_year", "att:{i}:time.millisecond_of_day", "pp:datetime_of_first_point.date"]
                for s in srcs:
                    owners.setdefault(re.sub(r":\d+:", ":{i}:", s), set()).add(f"{node['path']}{kind}{name}")
    return owners


def _influence_case(j, tier, seed, rng, obs, thin=1):
    """one slice of the byte positions of one file: substitute each byte by another character of its class, diff the
    canon, and require the changed leaves to be a subset of the leaves the spec assigns to the owning field"""
    from vf import speclib
    import fsspec

    r = random.Random(f"C20-infl-{seed}")
    files, info = gen.rich_product(r, [seed, 777], level="1.5", n_images=1, scans=[None], max_lines=2, max_pixels=2,
                                   leader_kw={"n_mp": 1, "designator": "UTM-PROJECTION", "att_len": 16 + 120 * 2, "n_att": 2, "n_ch": 2,
                                              "fac_lens": [66, 70, 80, 90]}, spare=random.Random("infl-pad"))
    names = info["names"]
    if j < 48:
        target, stride, off0 = names["led"], 48, j
        refdec.leader(files[target])
        owners = _owner_leaves()
    elif j < 56:
        target, stride, off0 = names["vol"], 8, j - 48
        refdec.volume(files[target])
        owners = {f"{rec}:{fld}": {f"/@{a}"} for a, (rec, fld) in speclib.VOLUME_ATTRS.items()}
    else:
        target, stride, off0 = names["imgs"][0], 8, j - 56
        refdec.image_sources(files[target])
        owners = {}
        node = expect.spec("image")["IU2"]["nodes"][0]
        for name, v in node["attrs"].items():
            if isinstance(v.get("src"), str) and v["src"].startswith("fd:"):
                owners.setdefault(v["src"], set()).add(f"/imagery/{harness.group_name(target)}@{name}")
    base_bytes = files[target]
    owner_of = {}
    limit = len(base_bytes) if target != names["imgs"][0] else 720
    for s_, (off, w, rec) in refdec.ABS.items():
        for pos in range(off, off + w):
            if pos < limit:
                owner_of[pos] = (s_, rec)
    root = harness.unique_root("memory", "infl")
    url = synth.install(files, root, "memory")
    violations = []
    fs = fsspec.filesystem("memory")
    try:
        base = canon.canon(harness.open_tree(url, use_cache=False))
        for pos in range(off0 + stride * (seed % thin), limit, stride * thin):
            s_, rec = owner_of.get(pos, (None, None))
            if s_ is None or ":preamble." in s_:
                continue
            f = synth.field(rec, s_.split(":")[-1])
            kind = synth.base_kind(f)
            old = base_bytes[pos:pos + 1]
            if f["kind"] == "enum" or (rec, f["name"]) in gen.CONSTRAINED or f["name"].endswith(("number_of_records", "record_length")):
                continue
            if kind in ("A_int", "A_float", "A_complex"):
                if not old.isdigit():
                    continue
                new = bytes([48 + (old[0] - 48 + 1 + rng.randrange(8)) % 10])
            elif kind == "A_str":
                if s_ in ("ds:scene_center_time", "pp:datetime_of_first_point.date", "vd:logical_volume_creation_datetime"):
                    continue
                new = rng.choice([c for c in gen.PRINTABLE if c.encode() != old]).encode()
            else:
                continue
            fs.pipe(f"{root}/{target}", base_bytes[:pos] + new + base_bytes[pos + 1:])
            obs["influence_bytes"] += 1
            try:
                c = canon.canon(harness.open_tree(url, use_cache=False))
            except Exception as e:
                violations.append({"what": f"substituting byte {pos} ({old!r}->{new!r}) of field {s_} in {target[:3]} raised {harness.exc_sig(e)}", "detail": {}})
                continue
            changed = {k for k, *_ in canon.diff(base, c) if not k.endswith("@@attrnames")}
            allowed = owners.get(re.sub(r":\d+:", ":{i}:", s_), set()) if not gen.is_padding(f) else set()
            bad = changed - allowed
            if bad:
                violations.append({"what": f"byte {pos} of field {s_} ({target[:3]}) influences leaves outside that field: {sorted(bad)[:3]}",
                                   "detail": {"allowed": sorted(allowed)[:4], "padding": gen.is_padding(f)}})
        fs.pipe(f"{root}/{target}", base_bytes)
    finally:
        synth.uninstall(files, root, "memory")
    return {"sig": f"influence|{target[:3]}|slice{j}", "evals": obs["influence_bytes"], "violations": violations[:6], "obs": obs,
            "sample": {"mode": "influence map", "file": target[:3], "slice": j, "bytes_substituted": obs["influence_bytes"]}}
