"""C18 fail-stop — fault enumeration with an empty cache directory.

For each seeded product a list of damaged variants is planted (image cut at every record boundary and +-1 byte, inside the
descriptor, sampled elsewhere; leader / volume directory cut at sampled (quick) or all (thorough) lengths; each used file
missing) and the real open_alos2 is run on each with rpc below / at / above the line count.  Verdict per variant:
  * truncated file  -> must raise (any exception); returning a tree is a violation, and if it returns, the number of
                       loadable lines is reported
  * missing file    -> must raise an OSError (FileNotFoundError included); a missing trailer is not a fault
  * promptness      -> decided on logical steps from the tracing filesystem: reads of the damaged image
                       <= 1 + ceil(lines/rpc) and requested bytes <= declared file size; wall clock only ever => inconclusive
"""
import math
import random

from vf import gen, harness, refdec, synth, tracefs

ID = "C18"
LEVEL = "fault_enumeration"
RULE = ("per product (levels 1.1/1.5, 1-3 images, lines 1..9, every sixth with records longer than 64 KiB; the intact product is opened once at the same location before it is damaged): image truncations at every record boundary and +-1, inside "
        "the 720-byte descriptor {0,1,12,359,719,720,721}, mid-prefix, mid-data and 6 random cuts; leader and volume "
        "directory truncations at record boundaries +-1 and random cuts (quick) or every length (thorough, one product "
        "per tier slice); each of summary/VOL/LED/IMG missing; all crossed with rpc in {1, <N, N, N+1, 1024}. "
        "evaluations = damaged variants opened; non-trivial = variant that differs from the intact product; distinct = "
        "distinct (file role, cut class, rpc class) signatures")
ASSUMPTIONS = ["the user cache directory is empty (with a valid cache a truncated image is deliberately not re-read: C07 scope)",
               "exception type is constrained only for missing files, as the property states"]
REQUIRED_OBS = ["variants", "raised", "missing_file_variants", "image_truncations", "intact_opens_first"]
CASE_TIMEOUT = 900

N = {"quick": 48, "thorough": 400}


def n_cases(tier, seed):
    return N[tier]


def cut_class(role, L, full, im=None):
    if role == "img":
        if L < 720:
            return "in-descriptor"
        if L == 720:
            return "after-descriptor"
        off = (L - 720) % im["reclen"]
        if off == 0:
            return "record-boundary"
        if off in (1, im["reclen"] - 1):
            return "boundary+-1"
        return "in-prefix" if off < synth.size(im["rec"]) else "in-data"
    return "cut"


def run_case(i, tier, seed):
    rng = random.Random(f"C18-{seed}-{i}")
    obs = {"variants": 0, "raised": 0, "missing_file_variants": 0, "image_truncations": 0, "leader_truncations": 0,
           "volume_truncations": 0, "reads_on_damaged_image": 0}
    violations, sigs = [], []
    level = ["1.1", "1.5"][i % 2]
    n_img = [1, 2, 3][i % 3]
    geoms = [(rng.randrange(1, 10), rng.randrange(1, 6)) for _ in range(n_img)]
    if i % 6 == 5:
        # one image whose records are longer than 64 KiB (wide swath): per-record code paths that depend on the record size
        geoms[0] = (rng.randrange(2, 5), rng.randrange(8200, 8400) if level == "1.1" else rng.randrange(32800, 33000))
    files, info = gen.rich_product(rng, [seed, i], level=level, n_images=n_img, scans=[None], geoms=geoms,
                                   leader_kw={"fac_lens": [rng.randrange(66, 200) for _ in range(4)], "att_len": rng.choice([16384, 16 + 120 * 3])})
    names = info["names"]
    exhaustive_small = tier == "thorough" and i % 40 == 0
    variants = []  # (role, file, cut length | None for missing)
    for n in names["imgs"]:
        im = refdec.image(files[n])
        full = len(files[n])
        cuts = {0, 1, 12, 359, 719, 720, 721}
        for k in range(im["n_records"] + 1):
            b = 720 + k * im["reclen"]
            cuts |= {b - 1, b, b + 1, b + synth.size(im["rec"]) // 2, b + synth.size(im["rec"]) + 1}
        cuts |= {rng.randrange(0, full) for _ in range(6)}
        if tier == "quick":
            keep = {0, 719, 720, 721, full - 1, full - im["reclen"], full - im["reclen"] + 1, 720 + im["reclen"]}
            cuts = {c for c in cuts if c in keep} | set(rng.sample(sorted(cuts), min(len(cuts), 8)))
        for c in sorted(c for c in cuts if 0 <= c < full):
            variants.append(("img", n, c))
    for role, n in (("led", names["led"]), ("vol", names["vol"])):
        full = len(files[n])
        if exhaustive_small:
            cuts = set(range(0, full))
        else:
            marks = [0, 1, 12, 359, 360, 361, 719, 720, 721, 720 + 4096, full - 1, full - 2, full - 1897, full - 125, full - 360]
            cuts = {c for c in marks if 0 <= c < full} | {rng.randrange(0, full) for _ in range(6 if tier == "quick" else 40)}
        for c in sorted(cuts):
            variants.append((role, n, c))
    for role, n in [("summary", "summary.txt"), ("vol", names["vol"]), ("led", names["led"])] + [("img", n) for n in names["imgs"]]:
        variants.append((role, n, None))
    # missing files are tried on every kind of filesystem (they report absence differently: FileNotFoundError, KeyError in
    # archives, ...); truncations on the tracing filesystem and, for a quarter of the products, inside a zip archive
    expanded = []
    for role, n, cut in variants:
        if cut is None:
            expanded += [(role, n, cut, k) for k in ("vfs", "zip", "local", "memory", "lvfs")]
        else:
            expanded.append((role, n, cut, "zip" if (i % 4 == 1 and rng.random() < 0.5) else "vfs"))
    roots = {k: harness.unique_root(k) for k in ("vfs", "zip", "local", "memory", "lvfs")}
    sample = None
    try:
        # the intact product is opened (and one image loaded) at each location first: the damage happens to a product this
        # process already knows, so anything remembered from the successful open must not mask it
        for kind0 in ("vfs", "zip"):
            url0 = synth.install(files, roots[kind0], kind0)
            try:
                t0 = harness.open_tree(url0, records_per_chunk=rng.choice([1, 2, 1024]))
                t0[f"imagery/{harness.group_name(names['imgs'][0])}/data"].values
                obs["intact_opens_first"] = obs.get("intact_opens_first", 0) + 1
            except Exception as e:
                violations.append({"what": f"the intact product could not be opened on {kind0}: {harness.exc_sig(e)}", "detail": {}})
        for role, n, cut, kind in expanded:
            root = roots[kind]
            damaged = dict(files)
            if cut is None:
                del damaged[n]
            else:
                damaged[n] = files[n][:cut]
            synth.uninstall(files, root, kind)
            url = synth.install(damaged, root, kind)
            obs["fs:" + kind] = obs.get("fs:" + kind, 0) + 1
            lines = max(g[0] for g in geoms)
            rpc = rng.choice([1, max(1, lines - 1), lines, lines + 1, 1024])
            tracefs.reset_log()
            obs["variants"] += 1
            cls = "missing" if cut is None else cut_class(role, cut, len(files[n]), refdec.image(files[n]) if role == "img" else None)
            sigs.append(f"{role}|{cls}|rpc:{harness.rpc_class(rpc, lines)}|{kind}")
            outcome = None
            try:
                tree = harness.open_tree(url, records_per_chunk=rpc)
                outcome = ("returned", tree)
            except Exception as e:
                outcome = ("raised", e)
                obs["raised"] += 1
            open_log = list(tracefs.LOG)  # before any probing of a returned tree
            if cut is None:
                obs["missing_file_variants"] += 1
                if outcome[0] == "returned":
                    violations.append({"what": f"open_alos2 returned although {role} file {n} is missing ({kind})", "detail": {}})
                elif not isinstance(outcome[1], OSError):
                    violations.append({"what": f"missing {role} file on {kind} reported as {type(outcome[1]).__name__}, not an OSError: {harness.exc_sig(outcome[1])}",
                                       "detail": {"file": n, "fs": kind}})
            else:
                obs[{"img": "image_truncations", "led": "leader_truncations", "vol": "volume_truncations"}[role]] += 1
                if outcome[0] == "returned":
                    detail = {"file": n, "cut": cut, "full": len(files[n]), "rpc": rpc, "class": cls}
                    if role == "img":
                        try:
                            da = outcome[1][f"imagery/{harness.group_name(n)}/data"]
                            detail["declared_shape"] = list(da.shape)
                            loadable = 0
                            for r in range(da.shape[0]):
                                try:
                                    da.isel(rows=r).values
                                    loadable += 1
                                except Exception:
                                    break
                            detail["loadable_lines"] = loadable
                        except Exception as e:
                            detail["inspect"] = harness.exc_sig(e)
                    violations.append({"what": f"open_alos2 returned a tree although {role} file was cut at byte {cut} of {len(files[n])} ({cls})",
                                       "detail": detail})
                if role == "img" and kind == "vfs":
                    im = refdec.image(files[n])
                    path = f"{root}/{n}"
                    rd = [e for e in open_log if e[0] == "read" and e[1] == path]
                    obs["reads_on_damaged_image"] += len(rd)
                    limit = 1 + math.ceil(im["n_records"] / max(1, min(rpc, im["n_records"])))
                    asked = sum(e[3] for e in rd if e[3] and e[3] > 0)
                    if len(rd) > limit or asked > len(files[n]) or any(e[3] is None or e[3] < 0 for e in rd):
                        violations.append({"what": f"open did not stay within its logical bound on a truncated image: {len(rd)} reads (limit {limit}), {asked} bytes requested (declared size {len(files[n])})",
                                           "detail": {"cut": cut, "rpc": rpc}})
            if sample is None and cut is not None and role == "img" and outcome[0] == "raised":
                sample = {"file_role": role, "cut_at": cut, "of": len(files[n]), "class": cls, "rpc": rpc, "outcome": harness.exc_sig(outcome[1])}
    finally:
        for k, r in roots.items():
            synth.uninstall(files, r, k)
    return {"sig": sigs, "evals": obs["variants"], "violations": violations[:12], "obs": obs, "sample": sample}


def finish(results, tier, seed):
    return {"exhaustive": False,
            "exhaustive_subdomain": "thorough: every truncation length of leader and volume directory for one product in 40; image cuts at every record boundary +-1 for every product"}
