"""C02 indexing equivalence — three-way differential monitor.

lazy   : DataArray returned by open_alos2 (the repository's BackendArray below xarray's lazy layer)
twin   : the same DataArray holding the in-memory sample matrix (values from the independent decoder)
control: xarray's LazilyIndexedArray over a NumPy-backed BackendArray of ours declaring the same
         IndexingSupport.BASIC — separates what the repository can be blamed for from what xarray's
         lazy layer does to *every* backend.

lazy == twin                      -> held
lazy != twin and control == twin  -> VIOLATION (the repository's backend is at fault)
lazy != twin and lazy == control  -> deviation arises above any backend: known finding C02/upstream-xarray-lazy-layer
otherwise                         -> VIOLATION
"""
import random

import numpy as np

from vf import contracts, gen, harness, refdec, selections, synth

ID = "C02"
LEVEL = "exploration"
RULE = ("exhaustive block: for every image size lines<=Nmax (pixels 3) and pixels<=Nmax (lines 3), both sample types, every "
        "records_per_chunk 1..N+1: every int in [-N,N-1], every slice(a,b,s) with a,b in {None,-N-1..N+1}, s in {None,+-1..+-(N+1)}, "
        "every boolean mask, every integer array/list of length<=2 on one axis crossed with a 6-9 element basis on the other; "
        "random block: isel/getitem/sel/vectorised expressions on images up to 300x40. Each selection is applied to lazy, twin "
        "and control; non-trivial = selection evaluated on all three; distinct = distinct (mode, row-indexer class, "
        "column-indexer class, rpc class, type) signatures")
ASSUMPTIONS = ["the in-memory twin holds the sample matrix decoded independently from the file bytes (C01 validates full loads)",
               "out-of-range keys are only required to fail in both (same exception class)"]
REQUIRED_OBS = ["selections", "agree_with_twin", "decoys_loaded_first", "pow2_span_images"]
CASE_TIMEOUT = 600

NMAX = {"quick": 3, "thorough": 5}
NRAND = {"quick": 64, "thorough": 1200}
RAND_SEL = {"quick": 150, "thorough": 400}


def _exh_cases(tier):
    out = []
    for typ in ("IU2", "C*8"):
        for n in range(1, NMAX[tier] + 1):
            for rpc in range(1, n + 2):
                out.append(("rows", typ, n, 3, rpc))
            out.append(("columns", typ, 3, n, 2))
    return out


def n_cases(tier, seed):
    return len(_exh_cases(tier)) + NRAND[tier]


def case_weight(i, tier, seed):
    exh = _exh_cases(tier)
    if i < len(exh):
        axis, typ, lines, pixels, rpc = exh[i]
        n = lines if axis == "rows" else pixels
        return ((2 * n + 3) ** 2 * (2 * n + 2) + 2 ** n + (2 * n) ** 2) * 9
    return RAND_SEL[tier]


def _result(da_fn):
    """-> ('ok', dims, shape, dtype, bits, coords) | ('exc', class name)"""
    try:
        r = da_fn()
        v = np.asarray(r.values)
        coords = {}
        for k, cv in r.coords.items():
            a = np.asarray(cv.values)
            payload = repr(a.tolist()) if a.dtype == object else np.ascontiguousarray(a).tobytes()
            coords[str(k)] = (tuple(cv.dims), a.shape, str(a.dtype), payload)
        return ("ok", tuple(r.dims), tuple(v.shape), str(v.dtype), np.ascontiguousarray(v).tobytes(), coords,
                tuple(r.shape))
    except Exception as e:
        return ("exc", type(e).__name__)


SUPPORT_LEVELS = ("BASIC", "OUTER", "OUTER_1VECTOR", "VECTORIZED")


def _backend_control(values, level="BASIC"):
    """xarray's own lazy layer over a trivially correct NumPy-backed backend declaring the given indexing support"""
    import xarray as xr
    from xarray.backends import BackendArray
    from xarray.core import indexing

    support = getattr(indexing.IndexingSupport, level)

    def raw(k):
        if level == "BASIC":
            return values[k]
        return indexing.NumpyIndexingAdapter(values)[{"OUTER": indexing.OuterIndexer, "OUTER_1VECTOR": indexing.OuterIndexer,
                                                      "VECTORIZED": indexing.VectorizedIndexer}[level](k)] \
            if not all(isinstance(x, (int, np.integer, slice)) for x in k) else values[k]

    class NP(BackendArray):
        def __init__(self, a):
            self.a = a
            self.shape = a.shape
            self.dtype = a.dtype

        def __getitem__(self, key):
            return indexing.explicit_indexing_adapter(key, self.shape, support, raw)

    return indexing.LazilyIndexedArray(NP(values))


def make_triple(tree, group, expected_values):
    import xarray as xr

    lazy = tree[f"imagery/{group}/data"]
    twin = lazy.copy(data=expected_values)
    control = xr.DataArray(xr.Variable(lazy.dims, _backend_control(expected_values), lazy.attrs),
                           coords=lazy.coords, name=lazy.name)
    # controls at the other support levels are built when a deviation has to be attributed (see compare3)
    control.attrs = dict(control.attrs)
    _OTHER_CONTROLS[id(control)] = (lazy, expected_values)
    return lazy, twin, control


_OTHER_CONTROLS = {}


def _other_controls(control):
    import xarray as xr

    lazy, values = _OTHER_CONTROLS[id(control)]
    for level in SUPPORT_LEVELS[1:]:
        yield level, xr.DataArray(xr.Variable(lazy.dims, _backend_control(values, level), lazy.attrs), coords=lazy.coords, name=lazy.name)


def expected_values(im):
    bits = refdec.samples_bits(im)
    if im["type"] == "IU2":
        return bits.astype(np.uint16)
    return np.ascontiguousarray(bits).view(np.float32).reshape(bits.shape[0], -1).copy().view(np.complex64)


def build(seed, i, typ, lines, pixels, kind="memory", fd=None):
    level = "1.5" if typ == "IU2" else "1.1"
    names = gen.product_names(level, pols=("HH",))
    rng_np = np.random.default_rng([seed, i])
    im = gen.minimal_image(rng_np, typ, lines, pixels, "random" if typ == "IU2" else "finite")
    if fd:
        im["fd"].update(fd)  # optional header fields (pixel range, ScanSAR burst description)
    # distinct, non-trivial row labels so that .sel() has something to get wrong
    for j, p in enumerate(im["prefix"]):
        p["sar_image_data_line_number"] = 10 + 3 * j
    files = {names["imgs"][0]: synth.image_bytes(im)}
    files[names["vol"]] = synth.volume_bytes(gen.minimal_volume(3))
    files[names["led"]] = synth.leader_bytes(gen.minimal_leader())
    files[names["trl"]] = synth.trailer_bytes({})
    order = [names["vol"], names["led"], *names["imgs"], names["trl"]]
    files["summary.txt"] = synth.summary_text(
        synth.default_summary_entries(order, names["tag"], names["pid"], names["scene"], [(pixels, lines)])).encode()
    root = harness.unique_root(kind)
    url = synth.install(files, root, kind)
    return files, names, root, url


def compare3(lazy, twin, control, sel):
    a = _result(lambda: selections.apply(lazy, sel))
    b = _result(lambda: selections.apply(twin, sel))
    if a == b:
        return "held", a, b, None
    c = _result(lambda: selections.apply(control, sel))
    if a == c:
        return "upstream", a, b, c
    # the package may declare more than BASIC support: a deviation that a trivially correct backend declaring OUTER /
    # OUTER_1VECTOR / VECTORIZED support reproduces byte for byte also arises in xarray's layer above any backend
    if id(control) in _OTHER_CONTROLS:
        for level, other in _other_controls(control):
            o = _result(lambda: selections.apply(other, sel))
            if o == a and o != b:
                return "upstream", a, b, o
    return "violation", a, b, c


def _describe(r):
    if r is None:
        return None
    if r[0] == "exc":
        return {"raises": r[1]}
    return {"dims": r[1], "values_shape": r[2], "dtype": r[3], "declared_shape": r[6], "coords": sorted(r[5]),
            "first_bytes": r[4][:16].hex()}


def run_case(i, tier, seed):
    contracts.install()
    exh = _exh_cases(tier)
    rng = random.Random(f"C02-{seed}-{i}")
    obs = {"selections": 0, "agree_with_twin": 0, "both_raise": 0, "upstream_deviation": 0}
    violations, sigs = [], []
    if i < len(exh):
        axis, typ, lines, pixels, rpc = exh[i]
        if axis == "rows":
            sels = [{"mode": "isel", "rows": r, "columns": c}
                    for r in selections.exhaustive_axis(lines) for c in selections.basis(pixels)]
        else:
            sels = [{"mode": "isel", "rows": r, "columns": c}
                    for c in selections.exhaustive_axis(pixels) for r in selections.basis(lines)]
        # the same through __getitem__ for a sample of them
        sels += [dict(s, mode="getitem") for s in sels[::7]]
    else:
        typ = rng.choice(["IU2", "C*8"])
        lines, pixels = rng.choice([(rng.randrange(1, 12), rng.randrange(1, 8)), (rng.randrange(12, 300), rng.randrange(1, 40))])
        rpc = rng.choice(harness.rpc_candidates(lines, rng))
        sels = [selections.random_selection(rng, lines, pixels) for _ in range(RAND_SEL[tier])]
        if i % 9 == 4:
            # round sizes: one full group of rpc lines spans exactly 2**k bytes
            g = harness.pow2_geometry(typ, rng.randrange(12, 21), rng)
            if g:
                lines, pixels, rpc = g
                sels = [selections.random_selection(rng, lines, min(pixels, 64)) for _ in range(60)]
                obs["pow2_span_images"] = 1
    files, names, root, url = build(seed, i, typ, lines, pixels)
    sample = None
    decoy = None
    try:
        if i >= len(exh) and i % 4 == 1:
            # another product with the same file names and geometry under the SAME root string on another filesystem is
            # opened and fully loaded first: whatever is remembered per path must not leak into this product's selections
            dfiles, dnames, _, _ = build(seed, 5_000_000 + i, typ, lines, pixels)
            synth.uninstall(dfiles, _, "memory")
            durl = synth.install(dfiles, root, "lvfs")
            decoy = (dfiles, root)
            dt = harness.open_tree(durl, use_cache=False, records_per_chunk=rpc)
            dt["imagery/HH/data"].values
            obs["decoys_loaded_first"] = 1
        tree = harness.open_tree(url, use_cache=False, records_per_chunk=rpc)
        im = refdec.image(files[names["imgs"][0]])
        lazy, twin, control = make_triple(tree, "HH", expected_values(im))
        for sel in sels:
            verdict, a, b, c = compare3(lazy, twin, control, sel)
            obs["selections"] += 1
            sigs.append(f"{typ}|rpc:{harness.rpc_class(rpc, lines)}|{selections.sel_class(sel)}")
            if verdict == "held":
                obs["agree_with_twin"] += 1
                if a[0] == "exc":
                    obs["both_raise"] += 1
                if sample is None and a[0] == "ok" and sel["rows"][0] == "slice":
                    sample = {"type": typ, "shape": [lines, pixels], "rpc": rpc, "selection": sel, "result": _describe(a)}
            elif verdict == "upstream":
                obs["upstream_deviation"] += 1
                if len([v for v in violations if v.get("key")]) < 3:
                    violations.append({"key": "C02/upstream-xarray-lazy-layer",
                                       "what": f"lazy != in-memory twin but == NumPy-backed control backend for {sel}",
                                       "detail": {"lazy": _describe(a), "twin": _describe(b), "control": _describe(c),
                                                  "shape": [lines, pixels], "rpc": rpc, "type": typ}})
            else:
                if len(violations) < 8:
                    violations.append({"what": f"lazy selection differs from the in-memory twin for {sel} on {typ} {lines}x{pixels} rpc={rpc}",
                                       "detail": {"lazy": _describe(a), "twin": _describe(b), "control": _describe(c)}})
    finally:
        synth.uninstall(files, root, "memory")
        if decoy:
            synth.uninstall(decoy[0], decoy[1], "lvfs")
    for f in contracts.drain():
        violations.append({"what": f"contract {f['contract']} failed", "detail": f["detail"]})
    obs["contract_evals"] = sum(contracts.EVALS.values())
    obs["contracts_ok"] = int(contracts.ok())  # evaluated, or not attachable at all (listed in the sample)
    obs["contracts_unavailable"] = len(contracts.UNAVAILABLE)
    contracts.EVALS.clear()
    return {"sig": sigs, "evals": obs["selections"], "violations": violations, "obs": obs, "sample": sample}


def finish(results, tier, seed):
    return {"exhaustive": False,
            "exhaustive_subdomain": f"all ints/slices/masks/short arrays for line counts 1..{NMAX[tier]} x rpc 1..N+1 and pixel counts 1..{NMAX[tier]}, both sample types"}
