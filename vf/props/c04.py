"""C04 SAR leader metadata — reference-model monitor over every node, variable and attribute under /metadata.

The expectation is computed from the leader file's bytes by the independent decoder and the frozen leaf spec
(vf/spec/leaves_leader.json: source field(s), conversion, scale factor, unit, name, dims and group path of every leaf;
text in every admissible spelling is converted with decimal/fractions arithmetic).  Completeness both ways: no missing
and no extra node, variable or attribute.  Attitude *time values* are judged by C17 (one finding, not two).
"""
import random

from vf import contracts, gen, harness, synth, treecheck

ID = "C04"
LEVEL = "exploration"
RULE = ("seeded leader files in which every non-spare field of every record holds a random admissible value at once (floats in "
        "F/E notation, explicit '+', leading zeros, '.5'/'5.', full-width mantissas, tiny/huge exponents, left/right/centred "
        "placement; ints incl. signs, leading zeros and the width's maximum; full-width texts with inner blanks and quotes; every "
        "enumerated code), 1..136 attitude points, 1..16 channels, map-projection record absent/present with each designator "
        "(UTM, UPS, LCC, MER), facility records of random length; opened through open_alos2 (memory / local / vfs); every third product is then replaced in place (same root and file "
        "names, new content in every record) and opened again in the same process. "
        "evaluations = leaves compared; non-trivial = product whose /metadata was compared completely; distinct = distinct "
        "(n_mp, designator, attitude-count class, channel count, fs) signatures plus distinct value classes generated")
ASSUMPTIONS = ["vf/spec/leaves_leader.json is the documented layout (frozen from the pinned tree, reviewed; record sizes match the published format)",
               "E/F notation only (no Fortran D exponents)", "scaled values are compared within 4 ulp, unscaled ASCII floats exactly"]
REQUIRED_OBS = ["products", "leaves_compared", "value_classes", "replaced_in_place"]
N = {"quick": 480, "thorough": 20000}


def n_cases(tier, seed):
    return N[tier]


def att_class(n):
    return "1" if n == 1 else "max" if n >= 136 else "few" if n < 10 else "many"


def run_case(i, tier, seed):
    contracts.install()
    rng = random.Random(f"C04-{seed}-{i}")
    classes = {}
    leader_kw = {"n_mp": i % 2 if i % 10 else rng.choice([0, 1]), "designator": gen.DESIGNATORS[(i // 2) % 4]}
    if i % 7 == 0:
        leader_kw.update({"att_len": 16384, "n_att": 136})
    if i % 11 == 0:
        leader_kw["n_ch"] = rng.choice([1, 16])
    level = ["1.1", "1.5", "3.1"][i % 3]
    files, info = gen.rich_product(rng, [seed, i], level=level, n_images=1, scans=[None], max_lines=2, max_pixels=2,
                                   classes=classes, leader_kw=leader_kw)
    kind = ["memory", "local", "vfs"][i % 3]
    root = harness.unique_root(kind)
    problems = []
    n = 0
    replaced = 0
    L = info["leader"]
    rounds = [(files, info)]
    if i % 3 == 0:
        # the same product directory, re-delivered: same root and file names, every record with new content
        pol = info["names"]["imgs"][0].split("-")[1]
        kw2 = dict(leader_kw)
        kw2["designator"] = gen.DESIGNATORS[(i // 2 + 1) % 4]
        rounds.append(gen.rich_product(rng, [seed, i, 1], level=level, n_images=1, scans=[None], max_lines=2, max_pixels=2,
                                       classes=classes, leader_kw=kw2, pols=[pol], scene=info["names"]["scene"]))
        assert sorted(rounds[1][0]) == sorted(files), "replacement product must reuse the file names"
    for r, (files_r, info_r) in enumerate(rounds):
        url = synth.install(files_r, root, kind)
        try:
            try:
                tree = harness.open_tree(url, use_cache=False)
                before = len(problems)
                k, src = treecheck.check_metadata(tree, files_r[info_r["names"]["led"]], problems)
                n += k
                if r:
                    replaced += 1
                    problems[before:] = ["[leader replaced in place, second open in this process] " + p for p in problems[before:]]
            except Exception as e:
                problems.append(f"open_alos2 raised on a well-formed product: {harness.exc_sig(e)}")
        finally:
            synth.uninstall(files_r, root, kind)
    violations = [{"what": p, "detail": {"leader": L, "fs": kind}} for p in problems[:6]]
    for f in contracts.drain():
        violations.append({"what": f"contract {f['contract']} failed", "detail": f["detail"]})
    sig = [f"mp:{L['n_mp']}|{L['designator'].split('-')[0] if L['n_mp'] else '-'}|att:{att_class(L['n_att'])}|ch:{L['n_ch']}|{kind}"]
    sig += [f"class:{c}" for c in classes]
    return {"sig": sig, "evals": n, "violations": violations,
            "obs": {"products": len(rounds), "leaves_compared": n, "value_classes": len(classes), "replaced_in_place": replaced},
            "sample": {"leader": L, "fs": kind, "leaves_compared": n, "value_classes": sorted(classes)[:10]},
            "nontrivial": n > 0}
