"""C10 history independence — sequences of operations in ONE interpreter against fresh-process references.

Operations: open x use_cache{T,F} x create_cache{T,F} x rpc{1,3,N+1} (12), ceos-alos2-create-cache next to the images
(in-process main(); thorough also as a subprocess), delete user-dir caches, delete adjacent caches.
After every step: returned tree == canon of a *fresh uncached process* for that step's rpc; product directory snapshot
changed only by the CLI op (exactly <image>.index added) or our own delete; user cache directory changed only by a step with
create_cache=True and only in <cache>/xarray-ceos-alos2/<sha256>/<image>.index; every write-open / mutation anywhere in
the process (audit hook) is inside those places; the caller's option dict (deep) and the functions' mutable defaults are
unchanged; trees returned earlier still canonicalise to what they were (no aliasing).
"""
import copy
import os
import random
import shutil

from vf import audit, cachelib, canon, env, gen, harness, synth
from vf.props import c07

ID = "C10"
LEVEL = "exploration"
RULE = ("(operations also include wiping the product's cache directory / the cache root and tearing existing index files to a prefix; eight scripted "
        "sequences such as create -> wipe -> create -> use and cli -> tear -> default opens; one fresh-process scenario per level whose user cache "
        "location cannot be created; worlds carry constant / slowly drifting per-line columns) "
        "level 1.1 and 1.5 products (2 images) on local paths / file:// URLs; breadth-first: every sequence of two operations "
        "(16 x 16) from the empty cache state; random sequences of length 8 (quick) / 30 (thorough); module state, default "
        "arguments and fsspec instance caches accumulate across all sequences of a case. evaluations = steps; non-trivial = "
        "step executed in a cache state other than 'no cache'; distinct = distinct (operation, abstract cache state before) pairs")
ASSUMPTIONS = ["the CLI op is the only one allowed to add a file to the product directory, exactly <image>.index",
               "deletes are the harness's own and are excluded from the write monitor",
               "fresh-process references use an empty private cache directory and use_cache=False"]
REQUIRED_OBS = ["steps", "trees_compared", "snapshots_compared", "audit_events_seen", "states_reached", "scripted_sequences",
                "unwritable_cache_opens"]
CASE_TIMEOUT = 900

RPCS = [1, 3, 6]
OPS = [("open", uc, cc, r) for uc in (True, False) for cc in (True, False) for r in RPCS] + \
      [("cli", None, None, None), ("del-user", None, None, None), ("del-adj", None, None, None), ("wipe-user-dir", None, None, None),
       ("wipe-cache-root", None, None, None), ("tear-user", None, None, None), ("tear-adj", None, None, None),
       ("del-user-last", None, None, None), ("del-adj-last", None, None, None), ("tear-user-last", None, None, None), ("cli-sub", None, None, None)]
_O = lambda uc, cc, r: ("open", uc, cc, r)  # noqa: E731
_X = lambda k: (k, None, None, None)  # noqa: E731
SCRIPTS = [
    [_O(False, True, 1), _X("wipe-user-dir"), _O(False, True, 1), _O(True, False, 3)],
    [_O(True, True, 3), _X("wipe-cache-root"), _O(True, True, 3), _O(True, False, 6), _X("wipe-cache-root"), _O(True, False, 1)],
    [_X("cli"), _O(True, False, 3), _X("del-adj"), _O(True, False, 3), _X("cli"), _O(True, False, 6)],
    [_O(True, True, 6), _O(True, False, 1), _X("del-user"), _O(True, True, 1), _O(True, False, 3)],
    [_X("cli"), _O(True, True, 1), _X("wipe-user-dir"), _O(True, False, 3), _X("del-adj"), _O(True, True, 6), _O(True, False, 6)],
    [_O(False, True, 3), _X("tear-user"), _O(True, False, 3), _O(True, False, 1), _O(True, True, 1), _O(True, False, 6)],
    [_X("cli"), _X("tear-adj"), _O(True, False, 1), _O(True, False, 3), _X("cli"), _O(True, False, 3)],
    [_X("cli"), _O(False, True, 1), _X("tear-adj"), _X("tear-user"), _O(True, False, 6), _X("del-user"), _O(True, False, 6)],
    [_O(False, True, 3), _X("del-user-last"), _O(True, False, 3), _O(True, True, 1), _O(True, False, 6)],
    [_X("cli"), _X("del-adj-last"), _O(True, False, 1), _O(True, True, 3), _X("tear-user-last"), _O(True, False, 3)],
]
NRAND = {"quick": 48, "thorough": 1500}
LEN = {"quick": 8, "thorough": 30}


def _plan(tier):
    cases = []
    for level in ("1.5", "1.1"):
        for a in range(len(OPS)):
            cases.append(("bfs", level, a))
    for k in range(NRAND[tier]):
        cases.append(("random", ["1.5", "1.1"][k % 2], k))
    for level in ("1.5", "1.1"):
        for k in range(len(SCRIPTS)):
            cases.append(("script", level, k))
    for level in ("1.5", "1.1"):
        cases.append(("unwritable-cache", level, 0))
    return cases


def n_cases(tier, seed):
    return len(_plan(tier))


class World:
    def __init__(self, seed, level, as_url):
        rng = random.Random(f"C10-prod-{seed}-{level}")
        self.files, self.info = gen.rich_product(rng, [seed, 10, int(float(level) * 10)], level=level, n_images=2, scans=[None],
                                                 geoms=[(5, 3), (4, 2)], leader_kw={"att_len": 16 + 120 * 3, "fac_lens": [80, 90, 100, 110]},
                                                 near_constant=True)
        self.root = harness.unique_root("local", "c10")
        synth.install(self.files, self.root, "local")
        self.url = ("file://" + self.root) if as_url else self.root
        self.imgs = self.info["names"]["imgs"]
        self.user = [cachelib.user_cache_file(self.root, n) for n in self.imgs]
        self.adj = [cachelib.adjacent_cache_file(self.root, n) for n in self.imgs]
        ref_home = os.path.join(env.scratch(), f"refcache-{os.getpid()}")
        shutil.rmtree(ref_home, ignore_errors=True)
        res = cachelib.fresh_process_canons({str(r): (self.url, {"use_cache": False, "records_per_chunk": r}) for r in RPCS}, ref_home)
        shutil.rmtree(ref_home, ignore_errors=True)
        bad = [k for k, v in res.items() if "error" in v]
        if bad:
            raise RuntimeError(f"reference process could not open the product: {res[bad[0]]['error']}")
        self.ref = {int(k): v["ok"] for k, v in res.items()}

    def state(self):
        return ("U" if all(os.path.exists(p) for p in self.user) else "u" if any(os.path.exists(p) for p in self.user) else "-") + \
               ("A" if all(os.path.exists(p) for p in self.adj) else "a" if any(os.path.exists(p) for p in self.adj) else "-")

    def reset(self):
        for p in self.user + self.adj:
            if os.path.exists(p):
                os.remove(p)

    def close(self):
        shutil.rmtree(self.root, ignore_errors=True)
        shutil.rmtree(cachelib.user_cache_root(), ignore_errors=True)


def _defaults():
    """the default arguments of every function the package defines (whatever they are called): {qualified name: repr}"""
    import inspect
    import sys

    out = {}
    for name, mod in list(sys.modules.items()):
        if not name.startswith("ceos_alos2") or ".tests" in name or mod is None:
            continue
        for attr, f in list(vars(mod).items()):
            if inspect.isfunction(f) and getattr(f, "__module__", None) == name and (f.__defaults__ or f.__kwdefaults__):
                out[f"{name}.{attr}"] = repr((f.__defaults__, f.__kwdefaults__))
    return out


_UNWRITABLE = r'''
import json, os, sys
sys.path.insert(0, {verif!r})
from vf import env
blocker = {blocker!r}
open(blocker, "w").write("not a directory")
os.environ["XDG_CACHE_HOME"] = os.path.join(blocker, "cache")   # env.bootstrap would mkdir it: set it by hand instead
sys.dont_write_bytecode = True
sys.path.insert(0, env.REPO)
for d in (os.path.join(env.VERIF, ".deps"),):
    if os.path.isdir(d): sys.path.insert(0, d)
import warnings; warnings.filterwarnings("ignore")
from vf import canon, cachelib
import ceos_alos2
out = []
for opts in ({{"create_cache": True, "use_cache": False, "records_per_chunk": 3}}, {{"create_cache": True, "records_per_chunk": 1}}, {{"records_per_chunk": 3}}):
    before = cachelib.snapshot({root!r})
    try:
        t = ceos_alos2.open_alos2({url!r}, backend_options=dict(opts))
        r = {{"ok": canon.canon(t)}}
    except BaseException as e:
        r = {{"error": type(e).__name__, "oserror": isinstance(e, OSError), "text": str(e)[:200]}}
    r["product_dir_changes"] = cachelib.snapshot_diff(before, cachelib.snapshot({root!r}))
    r["opts"] = opts
    out.append(r)
json.dump(out, sys.stdout)
'''


def _unwritable_cache_case(W, obs, violations):
    """create_cache=True while the user cache location cannot be created: whatever the open does (raise or go on), it must not
    write into the product directory; an open that was not asked to write must still return the right tree"""
    import json
    import subprocess

    W.reset()
    blocker = os.path.join(env.scratch(), f"blocker-{os.getpid()}")
    e = dict(os.environ)
    e.pop("XDG_CACHE_HOME", None)
    e["PYTHONDONTWRITEBYTECODE"] = "1"
    p = subprocess.run([env.PY, "-c", _UNWRITABLE.format(verif=env.VERIF, blocker=blocker, root=W.root, url=W.url)],
                       capture_output=True, text=True, timeout=300, env=e, cwd=env.VERIF)
    try:
        os.remove(blocker)
    except OSError:
        pass
    if p.returncode != 0:
        raise RuntimeError(f"unwritable-cache child failed: {p.stderr[-600:]}")
    for r in json.loads(p.stdout):
        obs["steps"] += 1
        obs["unwritable_cache_opens"] = obs.get("unwritable_cache_opens", 0) + 1
        detail = {"options": r["opts"], "user_cache_location": "below a regular file"}
        if r["product_dir_changes"]:
            violations.append({"what": f"open with {r['opts']} and an unwritable user cache location modified the product directory: {r['product_dir_changes']}", "detail": detail})
        if "ok" in r:
            obs["trees_compared"] += 1
            d = canon.diff(W.ref[r["opts"]["records_per_chunk"]], r["ok"])
            if d:
                violations.append({"what": f"open with {r['opts']} (unwritable cache location) differs from the reference at {len(d)} leaves, first {d[0]}", "detail": detail})
        elif not r["opts"].get("create_cache"):
            violations.append({"what": f"open without create_cache raised {r['error']}: {r['text']} (unwritable cache location)", "detail": detail})
    W.reset()


def step(W, op, obs, violations, kept, tier):
    import ceos_alos2

    kind, uc, cc, rpc = op
    before_state = W.state()
    snap_p = cachelib.snapshot(W.root)
    snap_c = cachelib.snapshot(cachelib.user_cache_root())
    defaults = _defaults()
    detail = {"op": list(op), "cache_state_before": before_state}
    obs["steps"] += 1
    allowed_cache_writes = set()
    allowed_product_adds = set()
    tree = None
    if kind in ("del-user", "del-adj"):
        for p in (W.user if kind == "del-user" else W.adj):
            if os.path.exists(p):
                os.remove(p)
        return f"{kind}|{before_state}"
    if kind in ("del-user-last", "del-adj-last", "tear-user-last"):
        # partial cache states: only the LAST image of the product loses (or tears) its index, the earlier ones keep theirs
        p = (W.adj if kind == "del-adj-last" else W.user)[-1]
        if os.path.exists(p):
            if kind.startswith("tear"):
                b = open(p, "rb").read()
                with open(p, "wb") as f:
                    f.write(b[: len(b) // 3])
            else:
                os.remove(p)
        return f"{kind}|{before_state}"
    if kind in ("tear-user", "tear-adj"):
        # an interrupted writer left a prefix of the index (C09's states) in the middle of a history: later opens must still
        # write nothing they were not asked to write
        for p in (W.user if kind == "tear-user" else W.adj):
            if os.path.exists(p):
                b = open(p, "rb").read()
                with open(p, "wb") as f:
                    f.write(b[: len(b) // 2])
        return f"{kind}|{before_state}"
    if kind in ("wipe-user-dir", "wipe-cache-root"):
        # a user (or a cleaner) removes the product's cache directory / the whole cache root, not just the index files
        shutil.rmtree(os.path.dirname(W.user[0]) if kind == "wipe-user-dir" else cachelib.user_cache_root(), ignore_errors=True)
        return f"{kind}|{before_state}"
    audit.arm(())
    try:
        if kind == "open":
            options = {"use_cache": uc, "create_cache": cc, "records_per_chunk": rpc, "storage_options": {}}
            # leave options at their (mutable) defaults half of the time, so that the defaults are exercised too
            h = obs["steps"]
            if h % 2:
                del options["storage_options"]
            if uc and h % 3 == 0:
                del options["use_cache"]
            if not cc and h % 3 == 1:
                del options["create_cache"]
            frozen = copy.deepcopy(options)
            try:
                tree = ceos_alos2.open_alos2(W.url, backend_options=options)
            except Exception as e:
                violations.append({"what": f"step {op} in cache state {before_state} raised: {harness.exc_sig(e)}", "detail": detail})
            if options != frozen:
                violations.append({"what": f"the caller's option dictionary was mutated: {frozen} -> {options}", "detail": detail})
            if cc:
                allowed_cache_writes = {os.path.relpath(p, cachelib.user_cache_root()) for p in W.user}
        else:
            try:
                for n in W.imgs:
                    (c07._cli_inprocess if kind == "cli" else c07._cli_subprocess)(["--rpc", str(random.Random(n).choice(RPCS)), os.path.join(W.root, n)])
            except Exception as e:
                violations.append({"what": f"CLI cache creation raised in cache state {before_state}: {harness.exc_sig(e)}", "detail": detail})
            allowed_product_adds = {n + ".index" for n in W.imgs}
    finally:
        ev = audit.disarm()
    obs["audit_events_seen"] += len(ev)
    # --- writes observed by the audit hook
    for e in audit.writes(ev):
        paths = [x for x in e[1:] if isinstance(x, str)]
        p = paths[0] if paths else ""
        if p.startswith(("/dev/", "/proc/")) or p == "":
            continue
        ok = False
        if cc and kind == "open":
            ok = p in W.user or (e[0] == "os.mkdir" and (cachelib.user_cache_root().startswith(p) or p.startswith(cachelib.user_cache_root())))
        if kind in ("cli", "cli-sub"):
            ok = p in W.adj
        if not ok:
            violations.append({"what": f"step {op}: write outside the permitted places: {e[:4]}", "detail": detail})
    # --- directory snapshots
    dp = cachelib.snapshot_diff(snap_p, cachelib.snapshot(W.root))
    dc = cachelib.snapshot_diff(snap_c, cachelib.snapshot(cachelib.user_cache_root()))
    obs["snapshots_compared"] += 2
    bad_p = {k: v for k, v in dp.items() if k not in allowed_product_adds}
    if bad_p:
        violations.append({"what": f"step {op} modified the product directory: {bad_p}", "detail": detail})
    bad_c = {k: v for k, v in dc.items() if k.rstrip("/") not in allowed_cache_writes and not (k.endswith("/") and any(a.startswith(k) for a in allowed_cache_writes))}
    if bad_c:
        violations.append({"what": f"step {op} changed the user cache directory although it may not: {bad_c}", "detail": detail})
    if cc and kind == "open" and not uc and tree is not None and not all(os.path.isfile(p) for p in W.user):
        violations.append({"what": f"step {op}: create_cache=True left no index file in the user cache directory", "detail": detail})
    after = _defaults()
    changed = sorted(k for k in defaults if k in after and after[k] != defaults[k])
    if changed:
        violations.append({"what": f"step {op} changed the default arguments of {changed[:3]}: {defaults[changed[0]]} -> {after[changed[0]]}", "detail": detail})
    # --- the tree
    if tree is not None:
        try:
            got = canon.canon(tree)
            obs["trees_compared"] += 1
            d = canon.diff(W.ref[rpc], canon.json_roundtrip(got))
            if d:
                violations.append({"what": f"step {op} in cache state {before_state}: tree differs from a fresh uncached open with rpc={rpc} at {len(d)} leaves, first {d[0]}",
                                   "detail": dict(detail, diff=d[:4])})
            kept.append((tree, got, op))
            if len(kept) > 3:
                kept.pop(0)
        except Exception as e:
            violations.append({"what": f"step {op}: loading the returned tree raised {harness.exc_sig(e)}", "detail": detail})
    return f"{kind}:{uc}:{cc}:{harness.rpc_class(rpc, 5) if rpc else ''}|{before_state}"


def run_case(i, tier, seed):
    kind, level, k = _plan(tier)[i]
    obs = {"steps": 0, "trees_compared": 0, "snapshots_compared": 0, "audit_events_seen": 0, "states_reached": 0, "aliasing_rechecks": 0}
    violations, sigs, states = [], [], set()
    W = World(seed, level, as_url=(i % 2 == 1))
    kept = []
    sample = None
    try:
        if kind == "bfs":
            nops = len(OPS) if tier == "thorough" else len(OPS) - 1
            for b in range(nops):
                W.reset()
                for op in (OPS[k], OPS[b]):
                    if op[0] == "cli-sub" and tier == "quick":
                        op = OPS[12]
                    sigs.append(step(W, op, obs, violations, kept, tier))
                    states.add(W.state())
            sample = {"kind": "all two-step sequences starting with", "first_op": list(OPS[k]), "level": level, "url": W.url,
                      "cache_states_reached": sorted(states)}
        elif kind == "unwritable-cache":
            _unwritable_cache_case(W, obs, violations)
            sample = {"kind": "fresh process whose user cache location cannot be created (a path component is a regular file)", "level": level}
        elif kind == "script":
            W.reset()
            for op in SCRIPTS[k]:
                sigs.append(step(W, op, obs, violations, kept, tier))
                states.add(W.state())
            obs["scripted_sequences"] = 1
            sample = {"kind": "scripted sequence", "level": level, "sequence": [list(o) for o in SCRIPTS[k]]}
        else:
            rng = random.Random(f"C10-{seed}-{k}")
            W.reset()
            seq = []
            for _ in range(LEN[tier]):
                op = rng.choice(OPS if tier == "thorough" else OPS[:-1])
                seq.append(list(op))
                sigs.append(step(W, op, obs, violations, kept, tier))
                states.add(W.state())
            sample = {"kind": "random sequence", "level": level, "sequence": seq[:8], "cache_states_reached": sorted(states)}
        # earlier results must not have been changed by later steps
        for tree, was, op in kept:
            obs["aliasing_rechecks"] += 1
            d = canon.diff(was, canon.canon(tree))
            if d:
                violations.append({"what": f"a tree returned earlier (step {op}) changed after later steps: {d[0]}", "detail": {}})
    finally:
        W.close()
    obs["states_reached"] = len(states)
    return {"sig": sigs, "evals": obs["steps"], "violations": violations[:8], "obs": obs, "sample": sample}
