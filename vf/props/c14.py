"""C14 summary parsing — reference-model monitor with a hand-written line recogniser and converters.

Well-formed texts: every entry must surface under its section's group with the documented conversion, for any line
order, LF/CRLF, values with blanks, '=' and quotes.  Corrupted texts: exactly one ExceptionGroup whose sub-exceptions
name exactly the corrupted line numbers (under one constant base for the whole run).
"""
import random
import re
from decimal import Decimal
from fractions import Fraction

from vf import gen, harness, idlang, speclib, synth

ID = "C14"
LEVEL = "exploration"
RULE = ("generated summaries: up to 8 sections (Pdi always), 3..10 product files, 1-3 shape indices, random key order within "
        "and across sections (a third fully shuffled), LF / CRLF / no final newline, free-text values with blanks, '=', quotes; "
        "each text is checked as is, then with every single line corrupted by each operator for small texts (exhaustive pairs/"
        "triples on the first lines) and random subsets otherwise; operators: drop closing quote, drop '=', 2/4-letter section, "
        "digit or non-ASCII letter in section, missing '_', blank line, leading / trailing blank, text after the closing quote. "
        "A fifth of the texts go through open_alos2 on memory://, the rest through summary.open_summary. evaluations = texts "
        "parsed; distinct = distinct (well-formed|operator set, newline, shuffled, #files) signatures")
ASSUMPTIONS = ["section codes are written in their canonical capitalisation; keys are non-empty and unique within a section",
               "a corruption counts only if the independent recogniser says the line is malformed",
               "the line-number base (0 or 1) is not fixed by the property: one constant base must explain every case of the run",
               "summaries are ASCII; exotic Unicode line separators are not generated"]
REQUIRED_OBS = ["texts", "wellformed_compared", "corrupted_texts", "error_groups_checked"]
N = {"quick": 600, "thorough": 12000}

LETTERS = "ABCDEFGHIJKLMNOPQRSTUVWXYZabcdefghijklmnopqrstuvwxyz"


def recognise(line):
    """independent statement of the line grammar: SSS_key="value"  -> (section, key, value) | None"""
    if len(line) < 7:
        return None
    if any(c not in LETTERS for c in line[:3]) or line[3] != "_":
        return None
    rest = line[4:]
    j = rest.find('="')
    if j < 0:
        return None
    tail = rest[j + 2:]
    if len(tail) < 1 or not tail.endswith('"') or "\n" in line or "\r" in line:
        return None
    return line[:3], rest[:j], tail[:-1]


def _float(text):
    d = Decimal(text.strip())
    return float(Fraction(d)) if d != 0 else (-0.0 if d.is_signed() else 0.0)


def free_text(rng, allow_empty=False):
    if allow_empty and rng.random() < 0.4:
        return ""
    alphabet = "ABCdef0123 .:-/=\"'_+()"
    n = rng.randrange(1, 24)
    t = "".join(rng.choice(alphabet) for _ in range(n))
    if rng.random() < 0.15:
        t = t[: n // 2] + rng.choice(['="', '"=', '""', 'a="b"']) + t[n // 2:]
    return t


def make_entries(rng, level_tag, files, nshapes):
    """-> {section: [(key, value)]} and the expected attrs per group"""
    exp = {}
    e = {}
    # --- ordering information: raw
    e["Odi"] = [("SiteDateTime", "20200301 01:02:03"), ("ProductionOrderNo", free_text(rng))] + \
               [(f"Free{j}", free_text(rng)) for j in range(rng.randrange(0, 3))]
    exp["ordering_information"] = dict(e["Odi"])
    # --- scene specification
    scene = f"ALOS2{rng.randrange(0, 10 ** 5):05d}{rng.randrange(0, 10 ** 4):04d}-{rng.randrange(14, 50):02d}{rng.randrange(1, 13):02d}{rng.randrange(1, 29):02d}"
    shift = rng.randrange(-5, 6)
    e["Scs"] = [("SceneID", scene), ("SceneShift", str(shift))]
    sd = idlang.decode_scene_id(scene)
    exp["scene_specification"] = {"mission_name": sd["mission_name"], "orbit_accumulation": int(sd["orbit_accumulation"]),
                                  "scene_frame": int(sd["scene_frame"]), "date": sd["date"].isoformat(), "SceneShift": shift}
    # --- product specification
    pid = rng.choice(list(idlang.OBSERVATION_MODES)) + rng.choice("LR") + rng.choice(list(idlang.LEVELS)) + rng.choice("GR_") + rng.choice("UPML_") + rng.choice("AD")
    rs = rng.choice(list(idlang.RESAMPLING))
    zone = rng.randrange(1, 61)
    md, op, ap = free_text(rng), free_text(rng), free_text(rng)
    floats = {k: rng.choice(["35.5", "-1.25E-3", "100", "0.0", "6.250", "+2.5e2", ".5"]) for k in
              rng.sample(["PixelSpacing", "PS_ReferenceLatitude", "PS_ReferenceLongitude", "LCC_OriginLatitude", "LCC_ReferenceLatitude1"], rng.randrange(0, 4))}
    e["Pds"] = [("ProductID", pid), ("ResamplingMethod", rs), ("UTM_ZoneNo", str(zone)), ("MapDirection", md),
                ("OrbitDataPrecision", op), ("AttitudeDataPrecision", ap)] + list(floats.items())
    exp["product_specification"] = dict(idlang.decode_product_id(pid), ResamplingMethod=idlang.RESAMPLING[rs], UTM_ZoneNo=zone,
                                        MapDirection=md, OrbitDataPrecision=op, AttitudeDataPrecision=ap,
                                        **{k: _float(v) for k, v in floats.items()})
    # --- image information
    img = []
    exp_img = {}
    for k in rng.sample(["SceneCenterDateTime", "SceneStartDateTime", "SceneEndDateTime"], rng.randrange(1, 4)):
        d = f"{rng.randrange(2014, 2050):04d}{rng.randrange(1, 13):02d}{rng.randrange(1, 29):02d}"
        # whole seconds, a single millisecond and the last millisecond are value classes of their own
        ms = rng.choice([0, 0, 1, 10, 100, 999, rng.randrange(0, 1000), rng.randrange(0, 1000)])
        t = f"{rng.choice([0, 23, rng.randrange(0, 24)]):02d}:{rng.choice([0, 59, rng.randrange(0, 60)]):02d}:{rng.choice([0, 59, rng.randrange(0, 60)]):02d}.{ms:03d}"
        img.append((k, f"{d} {t}"))
        exp_img[k] = f"{d[:4]}-{d[4:6]}-{d[6:8]}T{t}"
    for k in rng.sample(["ImageSceneCenterLatitude", "ImageSceneCenterLongitude", "ImageSceneLeftTopLatitude", "OffNadirAngle",
                         "FrameSceneRightBottomLongitude"], rng.randrange(1, 5)):
        v = rng.choice(["35.512", "-139.75", "0.0", "28.6", "1e-3", "-0.0"])
        img.append((k, v))
        exp_img[k] = _float(v)
    e["Img"] = img
    exp["image_information"] = exp_img
    # --- product information
    pdi = [("ProductFormat", "CEOS"), (f"CntOf{level_tag}ProductFileName", str(len(files)))]
    pdi += [(f"{level_tag}ProductFileName{j:02d}", f) for j, f in enumerate(files, 1)]
    bit = rng.choice([16, 32, 64])
    size = rng.choice(["1.5", "2231.7", "0.1"])
    pdi += [("BitPixel", str(bit)), ("ProductDataSize", size)]
    shapes = {}
    for j in range(nshapes):
        px, ln = rng.randrange(1, 30000), rng.randrange(1, 30000)
        pdi += [(f"NoOfPixels_{j}", str(px)), (f"NoOfLines_{j}", str(ln))]
        shapes[str(j)] = (px, ln)
    e["Pdi"] = pdi
    exp["product_information"] = {"ProductFormat": "CEOS", "BitPixel": bit, "ProductDataSize": _float(size)}
    exp["product_information/data_files"] = {"volume_directory": files[0], "sar_leader": files[1], "sar_imagery": list(files[2:-1]),
                                             "sar_trailer": files[-1]}
    exp["product_information/shapes"] = shapes
    # --- autocheck
    ach = [(k, free_text(rng, allow_empty=True)) for k in rng.sample(["TimeCheck", "AttitudeCheck", "OrbitCheck", "CalibrationCheck"], rng.randrange(1, 5))]
    e["Ach"] = ach
    exp["autocheck"] = {k: (v or "N/A") for k, v in ach}
    e["Rad"] = [("PracticeResultCode", free_text(rng))]
    exp["result_information"] = dict(e["Rad"])
    fac = rng.choice(list(idlang.FACILITIES))
    od = f"{rng.randrange(2014, 2050):04d}{rng.randrange(1, 13):02d}{rng.randrange(1, 29):02d}"
    e["Lbi"] = [("Satellite", "ALOS2"), ("Sensor", "SAR"), ("ProcessLevel", rng.choice(["1.1", "1.5"])), ("ProcessFacility", fac),
                ("ObservationDate", od)]
    exp["label_information"] = {"Satellite": "ALOS2", "Sensor": "SAR", "ProcessLevel": dict(e["Lbi"])["ProcessLevel"],
                                "ProcessFacility": idlang.FACILITIES[fac], "ObservationDate": f"{od[:4]}-{od[4:6]}-{od[6:]}"}
    return e, exp


OPERATORS = ["drop-close-quote", "drop-equals", "section-2", "section-4", "section-digit", "section-nonascii", "no-underscore",
             "blank-line", "leading-blank", "trailing-blank", "text-after-quote"]


def corrupt(line, op):
    if op == "drop-close-quote":
        return line[:-1]
    if op == "drop-equals":
        j = line.find('="')
        return line[:j] + line[j + 1:]
    if op == "section-2":
        return line[1:]
    if op == "section-4":
        return "X" + line
    if op == "section-digit":
        return line[0] + "1" + line[2:]
    if op == "section-nonascii":
        return "Ö" + line[1:]
    if op == "no-underscore":
        return line[:3] + line[4:]
    if op == "blank-line":
        return ""
    if op == "leading-blank":
        return " " + line
    if op == "trailing-blank":
        return line + " "
    if op == "text-after-quote":
        return line + "x"
    raise ValueError(op)


def group_to_plain(group):
    """Group from open_summary -> {relative path: attrs}"""
    out = {}

    def walk(g, prefix):
        for name, item in g.data.items():
            p = f"{prefix}/{name}" if prefix else name
            out[p] = dict(item.attrs)
            walk(item, p)
    walk(group, "")
    return out


def tree_to_plain(tree):
    out = {}
    for node in tree["summary"].subtree:
        rel = node.path[len("/summary"):].lstrip("/")
        if rel:
            out[rel] = dict(node.attrs)
    return out


def same(a, b):
    """type-exact comparison (int vs float matters; tuple vs list matters)"""
    if type(a) is not type(b):
        return False
    if isinstance(a, dict):
        return set(a) == set(b) and all(same(a[k], b[k]) for k in a)
    if isinstance(a, (list, tuple)):
        return len(a) == len(b) and all(same(x, y) for x, y in zip(a, b))
    if isinstance(a, float):
        return repr(a) == repr(b)
    return a == b


def n_cases(tier, seed):
    return N[tier]


def run_case(i, tier, seed):
    from ceos_alos2 import summary as csummary
    import fsspec

    try:
        EG = ExceptionGroup
    except NameError:  # pragma: no cover
        from exceptiongroup import ExceptionGroup as EG
    rng = random.Random(f"C14-{seed}-{i}")
    obs = {"texts": 0, "wellformed_compared": 0, "corrupted_texts": 0, "error_groups_checked": 0, "via_open_alos2": 0,
           "entries_compared": 0}
    violations, sigs, bases = [], [], []
    level = rng.choice(["1.1", "1.5"])
    n_img = rng.randrange(1, 9)
    files, info = gen.rich_product(rng, [seed, i], level=level, n_images=min(4, n_img), scans=[None] if n_img <= 4 else ["F1", "F2"],
                                   max_lines=3, max_pixels=3)
    order = info["order"]
    tag = info["names"]["tag"]
    entries, expected = make_entries(rng, tag, order, rng.randrange(1, 4))
    drop = [s for s in ("Odi", "Img", "Ach", "Rad", "Lbi") if rng.random() < 0.15]
    for s in drop:
        del entries[s]
        expected.pop(speclib.SUMMARY_SECTIONS[s])
    shuffled = i % 3
    secs = list(entries)
    if shuffled >= 1:
        rng.shuffle(secs)
        for s in secs:
            rng.shuffle(entries[s])
    lines = [f'{s}_{k}="{v}"' for s in secs for k, v in entries[s]]
    if shuffled == 2:
        rng.shuffle(lines)
    for ln in lines:
        assert recognise(ln) is not None, ln
    newline = ["\n", "\r\n"][i % 2]
    final_nl = i % 5 != 0
    root = harness.unique_root("memory", "c14")

    def render(ls):
        return newline.join(ls) + (newline if final_nl else "")

    def parse(text, through_open):
        files2 = dict(files) if through_open else {}
        files2["summary.txt"] = text.encode()
        synth.uninstall(files2, root, "memory")
        url = synth.install(files2, root, "memory")
        if through_open:
            obs["via_open_alos2"] += 1
            return tree_to_plain(harness.open_tree(url, use_cache=False))
        return group_to_plain(csummary.open_summary(fsspec.get_mapper(url), "summary.txt"))

    sample = None
    try:
        # ---- the well-formed text
        obs["texts"] += 1
        sig_base = f"nl:{newline!r}|final:{int(final_nl)}|shuf:{shuffled}|files:{len(order)}"
        sigs.append("wellformed|" + sig_base)
        through = i % 5 == 0
        try:
            got = parse(render(lines), through)
            obs["wellformed_compared"] += 1
            obs["entries_compared"] += sum(len(v) for v in expected.values())
            if set(got) != set(expected):
                violations.append({"what": f"summary groups {sorted(got)} != expected {sorted(expected)}", "detail": {"via_open_alos2": through}})
            for g in expected:
                if g in got and not same(got[g], expected[g]):
                    bad = [k for k in set(got[g]) | set(expected[g]) if k not in got[g] or k not in expected[g] or not same(got[g][k], expected[g][k])]
                    k = sorted(bad)[0]
                    violations.append({"what": f"/summary/{g}: entry {k!r} is {got[g].get(k, '<absent>')!r} ({type(got[g].get(k)).__name__}), expected {expected[g].get(k, '<absent>')!r} ({type(expected[g].get(k)).__name__})",
                                       "detail": {"differing_entries": sorted(bad)[:6], "shuffled": shuffled, "newline": repr(newline)}})
        except Exception as e:
            violations.append({"what": f"well-formed summary raised {harness.exc_sig(e)}", "detail": {"lines": lines[:5], "shuffled": shuffled}})
        # ---- corrupted variants
        plans = []
        for op in OPERATORS:
            plans.append({rng.randrange(len(lines)): op})
        if i % 4 == 0:
            first = list(range(min(4, len(lines))))
            for a in first:
                for b in first:
                    if a < b:
                        plans.append({a: rng.choice(OPERATORS), b: rng.choice(OPERATORS)})
        for _ in range(4):
            k = rng.randrange(2, max(3, len(lines) // 2))
            plans.append({j: rng.choice(OPERATORS) for j in rng.sample(range(len(lines)), min(k, len(lines)))})
        plans.append({j: rng.choice(OPERATORS) for j in range(len(lines))})
        for plan in plans:
            ls = list(lines)
            for j, op in plan.items():
                ls[j] = corrupt(lines[j], op)
            # blank last line vanishes with str.splitlines semantics when there is no final newline: decide by our own split
            text = render(ls)
            mine = text.split(newline)
            if mine and mine[-1] == "":
                mine = mine[:-1]
            bad = {j for j, ln in enumerate(mine) if recognise(ln) is None}
            if not bad:
                continue
            obs["texts"] += 1
            obs["corrupted_texts"] += 1
            sigs.append("ops:" + "+".join(sorted(set(plan.values())))[:60] + f"|n:{min(len(bad), 4)}|" + sig_base)
            try:
                parse(text, through_open=(len(plan) == 1 and i % 7 == 0))
                violations.append({"what": f"summary with {len(bad)} malformed line(s) was accepted", "detail": {"malformed": [mine[j] for j in sorted(bad)][:4]}})
                continue
            except EG as e:
                obs["error_groups_checked"] += 1
                nums = []
                nested = False
                for sub in e.exceptions:
                    if isinstance(sub, EG):
                        nested = True
                    m = re.search(r"line\s+(\d+)", str(sub.args[0]) if sub.args else "")
                    nums.append(int(m.group(1)) if m else None)
                if nested or None in nums or len(nums) != len(bad):
                    violations.append({"what": f"error group names {nums} (nested={nested}) for malformed lines {sorted(bad)} (0-based)",
                                       "detail": {"lines": [mine[j] for j in sorted(bad)][:4]}})
                    continue
                offs = {b for b in (0, 1) if {n - b for n in nums} == bad}
                if not offs:
                    violations.append({"what": f"error group names lines {sorted(nums)} but the malformed lines are {sorted(bad)} (0-based): not every offending line and no others",
                                       "detail": {"plan": {str(k): v for k, v in plan.items()}}})
                else:
                    bases.append(sorted(offs))
                if sample is None:
                    sample = {"text_lines": len(mine), "corrupted": {str(k): v for k, v in plan.items()}, "reported_line_numbers": sorted(nums),
                              "example_malformed_line": mine[sorted(bad)[0]]}
            except Exception as e:
                violations.append({"what": f"malformed summary raised {type(e).__name__} instead of one error group: {str(e)[:120]}",
                                   "detail": {"malformed": [mine[j] for j in sorted(bad)][:3]}})
    finally:
        synth.uninstall({**files, "summary.txt": b""}, root, "memory")
    return {"sig": sigs, "evals": obs["texts"], "violations": violations[:8], "obs": obs, "sample": sample, "bases": bases}


def finish(results, tier, seed):
    possible = {0, 1}
    n = 0
    for r in results:
        for b in r.get("bases", []):
            possible &= set(b)
            n += 1
    out = {"line_number_base": sorted(possible), "error_groups_with_consistent_base": n}
    if n and not possible:
        out["violations"] = [{"what": "no single line-number base (0 or 1) explains all error groups of this run", "detail": {}}]
    return out
