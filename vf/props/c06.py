"""C06 records_per_chunk independence — metamorphic monitor.

One product, opened with every rpc of a class-covering set; the canonical leaf maps (every node, variable,
attribute, encoding and every loaded value) of all opens must be pairwise equal except the image variables'
encoding['preferred_chunksizes'], which must equal {rows: min(rpc, lines), columns: pixels}.
"""
import random

from vf import canon, contracts, gen, harness, synth

ID = "C06"
LEVEL = "exploration"
RULE = ("seeded products with random content in every record (levels 1.1/1.5/3.1, 1-8 images, lines 1..12 quick / 1..60 thorough) "
        "opened with rpc in {1, a divisor, a non-divisor, N-1, N, N+1, 2N+3, 2^40} (N per image) plus an exhaustive block "
        "lines 1..Lmax x rpc 1..Lmax+2; for a third of the products every open goes through an index cache written beforehand with another rpc; all opens of a product are compared pairwise through their canonical leaf maps. "
        "evaluations = pairs compared; non-trivial = pair with different rpc; distinct = distinct (level, #images, rpc class pair)")
ASSUMPTIONS = ["the permitted difference is exactly encoding['preferred_chunksizes'] of variables backed by the image file"]
REQUIRED_OBS = ["pairs", "leaves_compared", "encoding_checked"]

NRAND = {"quick": 300, "thorough": 6000}
EXH = {"quick": 6, "thorough": 12}


def n_cases(tier, seed):
    return NRAND[tier] + EXH[tier]


def run_case(i, tier, seed):
    contracts.install()
    rng = random.Random(f"C06-{seed}-{i}")
    obs = {"pairs": 0, "leaves_compared": 0, "encoding_checked": 0, "opens": 0}
    violations, sigs = [], []
    if i >= NRAND[tier]:
        lines = i - NRAND[tier] + 1
        level = ["1.1", "1.5"][lines % 2]
        files, info = gen.rich_product(rng, [seed, i], level=level, n_images=2, scans=[None], geoms=[(lines, 3), (max(1, lines - 1), 2)])
        rpcs = list(range(1, EXH[tier] + 3))
    else:
        files, info = gen.rich_product(rng, [seed, i], max_lines=12 if tier == "quick" else 60)
        rpcs = sorted({r for im in info["images"].values() for r in harness.rpc_candidates(im["lines"], rng)})
        if len(rpcs) > 6:
            rpcs = sorted(rng.sample(rpcs, 6))
    kind = ["memory", "local", "vfs"][i % 3]
    root = harness.unique_root(kind, rng=rng)
    url = synth.install(files, root, kind)
    sample = None
    try:
        canons = {}
        via_cache = i % 3 == 0
        if via_cache:
            # the same relation must hold when every open goes through an index cache written with yet another rpc
            import shutil
            from vf import cachelib
            shutil.rmtree(cachelib.user_cache_root(), ignore_errors=True)
            harness.open_tree(url, use_cache=False, create_cache=True, records_per_chunk=rng.choice(rpcs))
            obs["via_cache_products"] = 1
        for rpc in rpcs:
            try:
                tree = harness.open_tree(url, use_cache=via_cache, records_per_chunk=rpc)
                canons[rpc] = canon.canon(tree)
                obs["opens"] += 1
            except Exception as e:
                violations.append({"what": f"open/load with rpc={rpc} raised: {harness.exc_sig(e)}",
                                   "detail": {"images": info["images"], "level": info["level"]}})
        data_keys = {f"/imagery/{harness.group_name(n)}#data": im for n, im in info["images"].items()}
        ignore = {(k, "encoding") for k in data_keys}
        for rpc, c in canons.items():
            for k, im in data_keys.items():
                obs["encoding_checked"] += 1
                want = {"__dict__": {"preferred_chunksizes": {"__dict__": {"rows": min(rpc, im["lines"]), "columns": im["pixels"]}}}}
                got = c.get(k, {}).get("encoding")
                if got != want:
                    violations.append({"what": f"preferred chunk sizes for rpc={rpc}, lines={im['lines']}: {got} != {want}",
                                       "detail": {"var": k}})
            # nothing else may carry an encoding that depends on rpc: covered by the pairwise diff below
        base_rpc = rpcs[0]
        for rpc in rpcs[1:]:
            if base_rpc not in canons or rpc not in canons:
                continue
            d = canon.diff(canons[base_rpc], canons[rpc], ignore=ignore)
            obs["pairs"] += 1
            obs["leaves_compared"] += len(canons[rpc])
            nmin = min(im["lines"] for im in info["images"].values())
            sigs.append(f"{info['level']}|imgs:{len(info['images'])}|{harness.rpc_class(base_rpc, nmin)}~{harness.rpc_class(rpc, nmin)}|{kind}|cache:{int(via_cache)}")
            if d:
                violations.append({"what": f"trees for rpc={base_rpc} and rpc={rpc} differ at {len(d)} leaves, first: {d[0]}",
                                   "detail": {"diff": d[:6], "images": info["images"], "level": info["level"]}})
        sample = {"level": info["level"], "images": list(info["images"].values()), "rpcs": rpcs, "fs": kind,
                  "leaves": len(next(iter(canons.values()), {}))}
    finally:
        synth.uninstall(files, root, kind)
        if i % 3 == 0:
            import shutil
            from vf import cachelib
            shutil.rmtree(cachelib.user_cache_root(), ignore_errors=True)
    for f in contracts.drain():
        violations.append({"what": f"contract {f['contract']} failed", "detail": f["detail"]})
    return {"sig": sigs, "evals": obs["pairs"], "violations": violations, "obs": obs, "sample": sample,
            "nontrivial": obs["pairs"] > 0}
