"""C17 one calendar convention — reference model (day-of-year 1 = 1 January, fraction exact to the stored resolution)
applied to every time-bearing field of a product at once, plus the relational check 'same instant => same datetime'.

Known finding classifier: every attitude time differs from the expectation by exactly +86400 s and no other time leaf
differs  ->  C17/attitude-time-one-day-late.  Anything else is a violation.
"""
import calendar
import datetime
import random
import re

import numpy as np

from vf import gen, harness, refdec, synth, treecheck

ID = "C17"
LEVEL = "exploration"
RULE = ("(instants include wall-clock times inside spring-forward gaps of six time zones and the year 2000; a share of the platform-position seconds carry 7-9 decimals) "
        "one instant per case (years 2014..2049; boundary days 1/59/60/61/365/366; first and last millisecond of a day; random), "
        "written simultaneously into every line of an image (ms stamp and, level 1.1, us-of-day stamp; a second image carries four lines straddling the following midnight / year end), every attitude point, the "
        "platform-position first point (date text + decimal seconds), the scene-centre time and the volume creation time; "
        "every time leaf of the tree is compared with the instant decoded from the bytes and the leaves given the same "
        "instant must agree with each other; thorough adds every day of 2016, 2019 and 2020. evaluations = time leaves "
        "compared; distinct = distinct (year leap?, day class, time-of-day class, level) signatures")
ASSUMPTIONS = ["decimal seconds are written with at most 6 decimals, so microsecond exactness is attainable",
               "attitude points carry no year: the convention is 1 January of the platform-position year, as the property states"]
REQUIRED_OBS = ["products", "time_leaves_compared", "relational_checks", "earlier_day_second"]
N = {"quick": 360, "thorough": 6000}
KEY = "C17/attitude-time-one-day-late"
DAY_CLASSES = ["d1", "d59", "d60", "d61", "d365", "d366", "rand", "rand"]


def n_cases(tier, seed):
    return N[tier] + (0 if tier == "quick" else 366 + 365 + 366)


def _instant(i, tier, seed, rng):
    if i >= N[tier]:
        j = i - N[tier]
        year, doy = (2016, j + 1) if j < 366 else (2019, j - 366 + 1) if j < 731 else (2020, j - 731 + 1)
        return {"year": year, "doy": doy, "ms": rng.choice([0, 86399999, rng.randrange(86400000)]), "us": 0}, "sweep"
    cls = DAY_CLASSES[i % len(DAY_CLASSES)]
    if i % 13 == 5:
        # wall-clock times inside some time zone's spring-forward gap, and the year 2000 (divisible by 400)
        return gen.rand_instant(rng, rng.choice(["dst-gap", "dst-gap", "y2000"]))
    year = rng.randrange(2014, 2050)
    if cls == "d366":
        year = rng.choice([y for y in range(2014, 2050) if calendar.isleap(y)])
    nd = 366 if calendar.isleap(year) else 365
    doy = {"d1": 1, "d59": 59, "d60": 60, "d61": 61, "d365": 365, "d366": 366}.get(cls) or rng.randrange(1, nd + 1)
    tcls = ["first", "last", "rand", "rand"][(i // 8) % 4]
    ms = {"first": 0, "last": 86399999}.get(tcls)
    if ms is None:
        ms = rng.randrange(86400000)
    return {"year": year, "doy": doy, "ms": ms, "us": rng.choice([0, 0, rng.randrange(1000)])}, f"{cls}|{tcls}"


def run_case(i, tier, seed):
    rng = random.Random(f"C17-{seed}-{i}")
    inst, cls = _instant(i, tier, seed, rng)
    level = ["1.1", "1.5"][i % 2]
    r = _one_product(i, tier, seed, rng, inst, cls, level)
    if i % 3 == 1:
        # the same process then opens products acquired EARLIER than what it decoded last (the first product's second image ends
        # on the day after `inst`): on the same day as `inst` and on the day before, a little later in the day. Anything a decoder
        # remembers about "the current day" must not leak from one product into the next.
        import datetime

        for back in (1, 2):
            d = datetime.date(inst["year"], 1, 1) + datetime.timedelta(days=inst["doy"] - back)
            earlier = {"year": d.year, "doy": (d - datetime.date(d.year, 1, 1)).days + 1,
                       "ms": min(86399990, (inst["ms"] if back == 2 else 0) + rng.randrange(1, 3600000)), "us": inst["us"]}
            r2 = _one_product(i, tier, seed, rng, earlier, cls + "|earlier", level)
            for v in r2["violations"]:
                v["what"] = f"[product {back + 1} of this process, acquired before what was decoded last] " + v["what"]
            r["violations"] += r2["violations"]
            r["evals"] += r2["evals"]
            for k2, v2 in r2["obs"].items():
                r["obs"][k2] = r["obs"].get(k2, 0) + v2
        r["obs"]["earlier_day_second"] = 1
    return r


def _one_product(i, tier, seed, rng, inst, cls, level):
    typ = gen.LEVELS[level][1]
    names = gen.product_names(level, pols=("HH", "HV"))
    tx = gen.instant_texts(inst)
    files = {}
    for k, n in enumerate(names["imgs"]):
        im = gen.minimal_image(np.random.default_rng([seed, i, k]), typ, 3, 2, "index", inst)
        for p in im["prefix"]:
            p["sensor_acquisition_date"] = [inst["year"], inst["doy"], inst["ms"]]
            if typ == "C*8":
                p["sensor_acquisition_date_microseconds"] = inst["ms"] * 1000 + inst["us"]
        if k == 1:
            # the second image is acquired across midnight (and across the year end when the day is the last one):
            # every line carries its own day, so a date remembered from another line shows
            nd = 366 if calendar.isleap(inst["year"]) else 365
            nxt = (inst["year"], inst["doy"] + 1) if inst["doy"] < nd else (inst["year"] + 1, 1)
            stamps = [(inst["year"], inst["doy"], 86399998), (inst["year"], inst["doy"], 86399999), (*nxt, 0), (*nxt, 1)]
            im2 = gen.minimal_image(np.random.default_rng([seed, i, k]), typ, 4, 2, "index", inst)
            for p, (y, d, ms) in zip(im2["prefix"], stamps):
                p["sensor_acquisition_date"] = [y, d, ms]
                if typ == "C*8":
                    p["sensor_acquisition_date_microseconds"] = ms * 1000 + inst["us"]
            im = im2
        files[n] = synth.image_bytes(im)
    extra_decimals = False
    led = gen.minimal_leader(n_att=3, att_len=16 + 120 * 3, inst=inst)
    led["ds"]["scene_center_time"] = tx["scene_center_time_us"] if inst["us"] else rng.choice([tx["scene_center_time_ms"], tx["scene_center_time_us"]])
    led["pp"]["datetime_of_first_point.date"] = tx["pp_date"]
    led["pp"]["datetime_of_first_point.seconds_of_day"] = tx["pp_seconds"]
    if i % 11 == 3 and inst["ms"] // 1000 < 86399:
        # decimal seconds written with more than six decimals (never an exact half microsecond): the value denotes the
        # nearest microsecond; a fraction of .9999995 and above carries into the next second
        secs = inst["ms"] // 1000
        frac = rng.choice(["9999996", "99999951", "999999949", f"{inst['ms'] % 1000:03d}{inst['us']:03d}{rng.choice('12346789')}",
                           f"{inst['ms'] % 1000:03d}{inst['us']:03d}4{rng.randrange(1, 100):02d}"])
        led["pp"]["datetime_of_first_point.seconds_of_day"] = f"{secs}.{frac}"
        extra_decimals = True
    for p in led["att"]["points"]:
        p["time.day_of_year"] = str(inst["doy"])
        p["time.millisecond_of_day"] = str(inst["ms"])
    files[names["led"]] = synth.leader_bytes(led)
    files[names["vol"]] = synth.volume_bytes(gen.minimal_volume(4, creation=tx["vol_creation"]))
    files[names["trl"]] = synth.trailer_bytes({})
    order = [names["vol"], names["led"], *names["imgs"], names["trl"]]
    files["summary.txt"] = synth.summary_text(
        synth.default_summary_entries(order, names["tag"], names["pid"], names["scene"], [(2, 3)])).encode()
    root = harness.unique_root("memory", "c17")
    url = synth.install(files, root, "memory")
    problems, n = [], 0
    relational = 0
    want_dt = refdec.instant(inst["year"], inst["doy"], inst["ms"])
    try:
        try:
            tree = harness.open_tree(url, use_cache=False)
            p1 = []
            treecheck.check_metadata(tree, files[names["led"]], p1, skip_time_kinds=())
            for nme in names["imgs"]:
                treecheck.check_image_group(tree, nme, files[nme], p1)
            treecheck.check_root(tree, files[names["vol"]], p1)
            time_leaf = re.compile(r"(#time|#sensor_acquisition_date|@datetime_of_first_point|@scene_center_time|@creation_datetime)")
            problems = [p for p in p1 if time_leaf.search(p)]
            n = 7 * (2 if typ == "C*8" else 1) + 2 * 3 + 3
            # relational: leaves that were given the same instant at ms resolution must read back as the same datetime
            reads = {}
            for nme in names["imgs"][:1]:  # the second image carries the midnight-crossing stamps instead
                g = tree[f"imagery/{harness.group_name(nme)}"]
                for ln in (0, 2):
                    reads[f"image {harness.group_name(nme)} line {ln} ms stamp"] = g["sensor_acquisition_date"].values[ln]
            reads["attitude point"] = tree["metadata/attitude/attitude"]["time"].values[0]
            if inst["us"] == 0 and not extra_decimals:
                reads["platform-position first point"] = np.datetime64(tree["metadata/platform_position"].attrs["datetime_of_first_point"], "ns")
                reads["scene-centre time"] = np.datetime64(tree["metadata/dataset_summary"].attrs["scene_center_time"], "ns")
            vals = {k: np.datetime64(v, "ns") for k, v in reads.items()}
            relational = len(vals)
            ref_name, ref = next(iter(vals.items()))
            for k, v in vals.items():
                if v != ref and not (k == "attitude point" and v - ref == np.timedelta64(86400, "s")):
                    problems.append(f"same instant reads back differently: {k} = {v} but {ref_name} = {ref} #relational")
            if vals["attitude point"] - ref == np.timedelta64(86400, "s"):
                problems.append(f"#time relational: attitude point {vals['attitude point']} is exactly one day after the image line stamp {ref} written with the same (day-of-year, ms)")
        except Exception as e:
            problems.append(f"open_alos2 raised on a well-formed product: {harness.exc_sig(e)} #time")
    finally:
        synth.uninstall(files, root, "memory")
    violations = []
    att = [p for p in problems if "/metadata/attitude/" in p or "attitude point" in p]
    other = [p for p in problems if p not in att]
    if att and not other and all("delta 86400000000000 ns" in p or "exactly one day after" in p for p in att):
        violations.append({"key": KEY, "what": att[0], "detail": {"instant": inst, "all": att[:4]}})
    else:
        for p in (other + att)[:6]:
            violations.append({"what": p, "detail": {"instant": inst, "expected": want_dt.isoformat(), "level": level}})
    leap = calendar.isleap(inst["year"])
    return {"sig": f"leap:{int(leap)}|{cls}|{level}|us:{int(bool(inst['us']))}", "evals": n, "violations": violations,
            "obs": {"products": 1, "time_leaves_compared": n, "relational_checks": relational, "seconds_with_extra_decimals": int(extra_decimals)},
            "sample": {"instant": inst, "as_datetime": want_dt.isoformat(), "level": level}, "nontrivial": n > 0}


def finish(results, tier, seed):
    return {"exhaustive": False,
            "exhaustive_subdomain": "thorough: every day of 2016, 2019 and 2020" if tier == "thorough" else "boundary-day classes only"}
