"""C15 identifier decoding — reference model over the finite documented language (enumeration) + near-miss strings.

Every product id, scene id (all dates 2014-01-01..2049-12-31), scan suffix and file-name shape composed from the frozen
code tables is decoded by the real decoders and compared with the table's meaning; group names must be unique per
(polarisation, scan number); single-edit near-misses that the independent recogniser rejects must raise ValueError.
A few hundred ids also go end to end through open_alos2 (summary attributes and /imagery names).
"""
import datetime
import itertools
import random

from vf import gen, harness, idlang, synth

ID = "C15"
LEVEL = "exploration"
RULE = ("enumeration, sharded: all 3600 product ids; all 13149 dates 2014-01-01..2049-12-31 as scene ids (random orbit/frame); "
        "all 20 scan suffixes; file names = file type x polarisation(5 incl. none) x product id x scan variant(21) on a rotating "
        "date (quick: 20k sampled shapes, thorough: all ~3.8e5); near-misses: every single-character replacement by one "
        "representative of each character class (incl. non-ASCII decimal digits and letters), every single deletion, insertions and trailing garbage (incl. one line feed, CR, CRLF, tab, NUL, U+2028) on sampled valid strings; file-name near-misses also through filename_to_groupname and, renamed inside a product, through open_alos2 "
        "plus every product id that differs from a valid one in one component over that component's whole alphabet (all 17576 three-letter modes, A-Z0-9_ for direction/option/projection/orbit, all d.d levels), near-miss product / scene ids arriving through summary.txt "
        "(quick ~6k, thorough ~60k), classified by the independent recogniser; 96 (quick) / 600 (thorough) ids end to end. "
        "evaluations = strings decoded; distinct = distinct strings (union over all shards of 48-bit hashes of the decoded strings, counted)")
ASSUMPTIONS = ["two-digit years are resolved relative to the current year (2026 => 1976..2075), which covers 2014..2049",
               "mission name fixed to ALOS2 (there is no code table for it)",
               "'scan' in the uniqueness clause is the scan number (a product has either B or F scans)",
               "near-misses are single edits of strings whose date lies in 2014..2049 (multi-edit strings such as '011305' -> 2005-01-13 via dateutil's month/day swap are outside the stated quantifier; recorded in DESIGN.md)"]
REQUIRED_OBS = ["product_ids", "scene_dates", "file_names", "near_misses_rejected", "group_names", "group_name_near_misses",
                "end_to_end_near_misses", "component_alphabet_ids", "summary_near_misses"]
NSHARD = 32
CLASS_REPS = "A9_.-h \u0663\uff13\u00c4"  # incl. an Arabic-Indic digit, a full-width digit and a non-ASCII capital


def n_cases(tier, seed):
    return NSHARD + (4 if tier == "quick" else 24)


def _cmp(got, want):
    if set(got) != set(want):
        return f"keys {sorted(got)} != {sorted(want)}"
    for k in want:
        g, w = got[k], want[k]
        if isinstance(w, datetime.date) and not isinstance(w, datetime.datetime):
            g = g.date() if isinstance(g, datetime.datetime) else g
            if isinstance(got[k], datetime.datetime) and (got[k].hour or got[k].minute or got[k].second):
                return f"{k}: time of day in {got[k]!r}"
        if g != w:
            return f"{k}: {g!r} != {w!r}"
    return None


def near_misses(rng, s, limit):
    out = set()
    pos = list(range(len(s)))
    rng.shuffle(pos)
    for p in pos[:limit]:
        for c in CLASS_REPS:
            if c != s[p]:
                out.add(s[:p] + c + s[p + 1:])
        out.add(s[:p] + s[p + 1:])
        out.add(s[:p] + rng.choice("A0-_") + s[p:])
    out |= {s + "X", s + "-F1", s + " ", " " + s, s + "0", s.lower(),
            s + "\n", s + "\r", s + "\r\n", s + "\t", s + "\x00", "\n" + s, s + "\u2028", s + "\n\n", s + "\x0b", s + "\x85"}
    out.discard(s)
    return sorted(out)


def run_case(i, tier, seed):
    from ceos_alos2 import decoders
    from ceos_alos2.sar_image import filename_to_groupname

    rng = random.Random(f"C15-{seed}-{i}")
    obs = {"product_ids": 0, "scene_dates": 0, "scan_suffixes": 0, "file_names": 0, "near_misses_rejected": 0,
           "near_misses_still_valid": 0, "group_names": 0, "end_to_end": 0}
    violations = []
    strings = 0
    seen = set()
    sample = None

    def check_decode(fn, s, want, what):
        nonlocal strings
        strings += 1
        seen.add(_h(s))
        try:
            got = fn(s)
        except Exception as e:
            if want is None:
                if not isinstance(e, ValueError):
                    violations.append({"what": f"{what} {s!r} rejected with {type(e).__name__} instead of ValueError: {str(e)[:100]}", "detail": {}})
                return "rejected"
            violations.append({"what": f"{what} {s!r} of the documented language rejected: {harness.exc_sig(e)}", "detail": {}})
            return "error"
        if want is None:
            violations.append({"what": f"{what} {s!r} is outside the documented language but was accepted as {str(got)[:160]}", "detail": {}})
            return "accepted"
        m = _cmp(got, want)
        if m:
            violations.append({"what": f"{what} {s!r} decoded wrongly: {m}", "detail": {}})
        return "ok"

    if i < NSHARD:
        # ---- product ids
        pids = list(idlang.all_product_ids())
        for s in pids[i::NSHARD]:
            check_decode(decoders.decode_product_id, s, idlang.decode_product_id(s), "product id")
            obs["product_ids"] += 1
        # ---- all dates as scene ids
        d0 = datetime.date(2014, 1, 1)
        ndays = (datetime.date(2049, 12, 31) - d0).days + 1
        for k in range(i, ndays, NSHARD):
            d = d0 + datetime.timedelta(days=k)
            s = f"ALOS2{rng.randrange(0, 10 ** 5):05d}{rng.randrange(0, 10 ** 4):04d}-{d:%y%m%d}"
            want = idlang.decode_scene_id(s)
            assert want is not None and want["date"] == d
            check_decode(decoders.decode_scene_id, s, want, "scene id")
            obs["scene_dates"] += 1
        # ---- product-id components over their whole alphabet: every 3-letter mode, every letter / digit elsewhere
        if i == 1:
            import string

            base = "WBDR1.5GUD"
            cands = {m + base[3:] for m in ("".join(t) for t in itertools.product(string.ascii_uppercase, repeat=3))}
            for pos in (3, 7, 8, 9):
                cands |= {base[:pos] + c + base[pos + 1:] for c in string.ascii_uppercase + string.digits + "_"}
            cands |= {base[:4] + f"{a}.{b}" + base[7:] for a in string.digits for b in string.digits}
            for s_ in sorted(cands):
                r = check_decode(decoders.decode_product_id, s_, idlang.decode_product_id(s_), "product id (component alphabet)")
                obs["component_alphabet_ids"] = obs.get("component_alphabet_ids", 0) + 1
        # ---- scan suffixes
        if i == 0:
            for s in [a + b for a in "BF" for b in idlang.DIGITS]:
                check_decode(decoders.decode_scan_info, s, idlang.decode_scan(s), "scan suffix")
                obs["scan_suffixes"] += 1
            names = {}
            for pol in idlang.POLARIZATIONS:
                for scan in [None] + [a + b for a in "BF" for b in idlang.DIGITS]:
                    f = f"IMG-{pol}-ALOS2014410750-140829-WBDR1.1__D" + (f"-{scan}" if scan else "")
                    g = filename_to_groupname(f)
                    key = (pol, scan[1] if scan else None)
                    obs["group_names"] += 1
                    if g != harness.group_name(f):
                        violations.append({"what": f"group name for {f} is {g!r}, naming rule says {harness.group_name(f)!r}", "detail": {}})
                    if g in names and names[g] != key:
                        violations.append({"what": f"group name {g!r} is shared by {names[g]} and {key}", "detail": {}})
                    names[g] = key
        # ---- file names
        scans = [None] + [a + b for a in "BF" for b in idlang.DIGITS]
        pols = [None] + idlang.POLARIZATIONS
        shapes = list(itertools.product(idlang.FILETYPES, pols, range(len(pids)), scans))
        mine = shapes[i::NSHARD]
        if tier == "quick":
            mine = rng.sample(mine, 640)
        day = datetime.date(2014, 1, 1) + datetime.timedelta(days=i * 17)
        for n, (ft, pol, pk, scan) in enumerate(mine):
            day = day + datetime.timedelta(days=1) if day < datetime.date(2049, 12, 31) else datetime.date(2014, 1, 1)
            s = ft + (f"-{pol}" if pol else "") + f"-ALOS2{(pk * 7) % 10 ** 5:05d}{(n * 13) % 10 ** 4:04d}-{day:%y%m%d}-{pids[pk]}" + (f"-{scan}" if scan else "")
            want = idlang.decode_filename(s)
            assert want is not None, s
            try:
                got = decoders.decode_filename(s)
                got = {k: v for k, v in got.items() if v is not None}
            except Exception as e:
                got = e
            strings += 1
            seen.add(_h(s))
            obs["file_names"] += 1
            if isinstance(got, Exception):
                violations.append({"what": f"file name {s!r} of the documented language rejected: {harness.exc_sig(got)}", "detail": {}})
            else:
                m = _cmp(got, want)
                if m:
                    violations.append({"what": f"file name {s!r} decoded wrongly: {m}", "detail": {}})
            if sample is None:
                sample = {"file_name": s, "decoded": {k: str(v) for k, v in want.items()}}
        # ---- near misses
        bases = [(decoders.decode_product_id, idlang.decode_product_id, rng.choice(pids), "product id"),
                 (decoders.decode_scene_id, idlang.decode_scene_id, f"ALOS2014410750-{rng.randrange(14, 50):02d}{rng.randrange(1, 13):02d}{rng.randrange(1, 29):02d}", "scene id"),
                 (decoders.decode_scan_info, idlang.decode_scan, rng.choice("BF") + rng.choice(idlang.DIGITS), "scan suffix"),
                 (decoders.decode_filename, idlang.decode_filename,
                  f"IMG-{rng.choice(idlang.POLARIZATIONS)}-ALOS2014410750-{rng.randrange(14, 50):02d}0829-{rng.choice(pids)}-{rng.choice('BF')}{rng.choice(idlang.DIGITS)}", "file name")]
        for fn, ref, base, what in bases:
            for s in near_misses(rng, base, 6 if tier == "quick" else 40):
                want = ref(s)
                if want is not None and fn is decoders.decode_filename:
                    want = dict(want)
                r = check_decode((lambda x, fn=fn: {k: v for k, v in fn(x).items() if v is not None}), s, want, "near-miss " + what)
                if r == "rejected":
                    obs["near_misses_rejected"] += 1
                elif r == "ok":
                    obs["near_misses_still_valid"] += 1
                if fn is decoders.decode_filename:
                    # the group name is derived from the file name: outside the language => ValueError, inside => the naming rule
                    obs["group_name_near_misses"] = obs.get("group_name_near_misses", 0) + 1
                    try:
                        g = filename_to_groupname(s)
                    except ValueError:
                        if want is not None:
                            violations.append({"what": f"group name of the valid file name {s!r} rejected", "detail": {}})
                    except Exception as e:
                        violations.append({"what": f"filename_to_groupname({s!r}) failed with {type(e).__name__} instead of ValueError: {str(e)[:100]}", "detail": {}})
                    else:
                        if want is None:
                            violations.append({"what": f"file name {s!r} is outside the documented language but was given the group name {g!r}", "detail": {}})
                        elif "polarization" in want and g != harness.group_name(s):
                            violations.append({"what": f"group name of {s!r} is {g!r}, naming rule says {harness.group_name(s)!r}", "detail": {}})
    else:
        # ---- end to end: products named with an id; observe /summary and /imagery
        for k in range(24 if tier == "quick" else 25):
            pid_parts = (rng.choice(list(idlang.OBSERVATION_MODES)), rng.choice("LR"), rng.choice(["1.1", "1.5", "3.1"]),
                         rng.choice("GR_") + rng.choice("UPML_"), rng.choice("AD"))
            level = pid_parts[2]
            scans = rng.choice([[None], ["F1", "F3"], ["B2"]])
            files, info = gen.rich_product(rng, [seed, i, k], level=level, n_images=rng.choice([1, 2]), scans=scans, max_lines=3,
                                           max_pixels=3, mode=pid_parts[0], optproj=pid_parts[3])
            # rich_product fixes look/orbit; rewrite the names for the chosen ones is not needed: the id it built is in the language
            pid = info["names"]["pid"]
            root = harness.unique_root("memory", "c15")
            url = synth.install(files, root, "memory")
            try:
                tree = harness.open_tree(url, use_cache=False)
                obs["end_to_end"] += 1
                strings += 1
                seen.add(_h("e2e:" + pid + "|" + "|".join(info["names"]["imgs"])))
                want = idlang.decode_product_id(pid)
                got = {k2: tree["summary/product_specification"].attrs.get(k2) for k2 in want}
                if got != want:
                    violations.append({"what": f"/summary/product_specification for {pid}: {got} != {want}", "detail": {}})
                sc = idlang.decode_scene_id(info["names"]["scene"])
                a = tree["summary/scene_specification"].attrs
                if (a.get("mission_name"), a.get("orbit_accumulation"), a.get("scene_frame"), a.get("date")) != \
                        (sc["mission_name"], int(sc["orbit_accumulation"]), int(sc["scene_frame"]), sc["date"].isoformat()):
                    violations.append({"what": f"/summary/scene_specification for {info['names']['scene']}: {dict(a)}", "detail": {}})
                names = [harness.group_name(n) for n in info["names"]["imgs"]]
                if list(tree["imagery"].children) != names:
                    violations.append({"what": f"/imagery children {list(tree['imagery'].children)} != {names}", "detail": {}})
            except Exception as e:
                violations.append({"what": f"product named with id {pid} could not be opened: {harness.exc_sig(e)}", "detail": {}})
            finally:
                synth.uninstall(files, root, "memory")
            # the same product with one image file renamed to a near-miss of its name: the open must fail with ValueError
            img = info["names"]["imgs"][0]
            cands = [x for x in near_misses(rng, img, 4) if idlang.decode_filename(x) is None and x.isascii() and x.isprintable()
                     and '"' not in x and "/" not in x and x == x.strip() and x not in files]
            if cands:
                bad = rng.choice(cands)
                files2 = {(bad if k2 == img else k2): v2 for k2, v2 in files.items()}
                files2["summary.txt"] = files["summary.txt"].replace(img.encode() + b'"', bad.encode() + b'"')
                root2 = harness.unique_root("memory", "c15n")
                url2 = synth.install(files2, root2, "memory")
                try:
                    obs["end_to_end_near_misses"] = obs.get("end_to_end_near_misses", 0) + 1
                    strings += 1
                    seen.add(_h("e2e-near:" + bad))
                    try:
                        t2 = harness.open_tree(url2, use_cache=False)
                        violations.append({"what": f"product with the image file name {bad!r} (outside the documented language) opened; /imagery = {list(t2['imagery'].children)}", "detail": {}})
                    except ValueError:
                        pass
                    except Exception as e:
                        violations.append({"what": f"product with the image file name {bad!r} failed with {type(e).__name__} instead of ValueError: {str(e)[:120]}", "detail": {}})
                finally:
                    synth.uninstall(files2, root2, "memory")
            # near-miss product / scene ids arriving through summary.txt: the open must fail with ValueError
            for key, good, ref in ((b'Pds_ProductID="', pid, idlang.decode_product_id), (b'Scs_SceneID="', info["names"]["scene"], idlang.decode_scene_id)):
                cands = [x for x in near_misses(rng, good, 3) if ref(x) is None and x.isascii() and x.isprintable() and '"' not in x and x == x.strip()]
                old = key + good.encode() + b'"'
                if not cands or old not in files["summary.txt"]:
                    continue
                bad = rng.choice(cands)
                files3 = dict(files)
                files3["summary.txt"] = files["summary.txt"].replace(old, key + bad.encode() + b'"')
                root3 = harness.unique_root("memory", "c15s")
                url3 = synth.install(files3, root3, "memory")
                try:
                    obs["summary_near_misses"] = obs.get("summary_near_misses", 0) + 1
                    strings += 1
                    seen.add(_h("sum-near:" + bad))
                    try:
                        harness.open_tree(url3, use_cache=False)
                        violations.append({"what": f"summary with {key.decode()}{bad}\" (outside the documented language) opened", "detail": {}})
                    except ValueError:
                        pass
                    except BaseException as e:
                        violations.append({"what": f"summary with {key.decode()}{bad}\" failed with {type(e).__name__} instead of ValueError: {str(e)[:120]}", "detail": {}})
                finally:
                    synth.uninstall(files3, root3, "memory")
        sample = {"end_to_end_product_id": pid}
    return {"sig": f"shard{i}", "evals": strings, "violations": violations[:8], "obs": obs, "sample": sample, "strings": strings,
            "seen": sorted(seen)}


def _h(s):
    import hashlib

    return int.from_bytes(hashlib.blake2b(s.encode("utf-8", "surrogatepass"), digest_size=6).digest(), "big")


def finish(results, tier, seed):
    union = set()
    for r in results:
        union.update(r.get("seen", ()))
    total = len(union)
    return {"distinct_nontrivial": total, "exhaustive": tier == "thorough",
            "exhaustive_subdomain": "all 3600 product ids, all dates 2014..2049, all scan suffixes, all 44 (polarisation, scan number) group names"
                                    + ("; all file-name shapes" if tier == "thorough" else "; file names sampled")}
