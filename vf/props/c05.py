"""C05 record framing — the C04/C16 oracles applied to exhaustive sweeps of every declared count and length.

Every record that follows a variable-length or optional record carries random full-width content in all of its fields,
so a framing error of a single byte (or of one element) shows up as wrong values in the following records
(/metadata/radiometric_data, /metadata/data_quality_summary, /metadata/transformations, root text-record attributes).
The trailer reader (not called by open_alos2) is driven directly: each low-resolution image must equal its own bytes.
"""
import io
import random
import struct

import numpy as np

from vf import gen, harness, refdec, synth, treecheck

ID = "C05"
LEVEL = "exploration"
RULE = ("(every other trailer mixes sample widths between its images) "
        "exhaustive sweeps, one dimension at a time with everything else random: attitude point count N = 1..floor((L-16)/120) "
        "for record length L = 16384 (136 points) and for the tight lengths L = 16+120N; channel count 1..16; map-projection "
        "record count 0/1; each of facility records 1-4 with every declared length 66..66+4200 (quick: every 23rd + edges); "
        "file-pointer count 0..16 in the volume directory; trailer low-resolution image count 0..7 x sample width 1/2/4/8 bytes "
        "with distinct shapes. evaluations = parses; distinct = distinct (dimension, value) pairs; non-trivial = every case")
ASSUMPTIONS = ["only counts / lengths the format admits (no zero attitude points or channels)",
               "trailer images are compared flat against their own bytes (orientation is not claimed)"]
REQUIRED_OBS = ["parses", "leaves_compared", "attitude_counts", "facility_lengths", "trailer_images"]


def _plan(tier):
    cases = []
    for n in range(1, 137):
        cases.append(("att", 16384, n))
    for n in list(range(1, 137, 1 if tier == "thorough" else 9)) + [136]:
        cases.append(("att", 16 + 120 * n, n))
        if tier == "thorough":
            cases.append(("att", 16 + 120 * n + 7, n))
    for n in range(1, 17):
        for mp in (0, 1):
            cases.append(("ch", n, mp))
    step = 1 if tier == "thorough" else 23
    for k in range(4):
        for L in sorted(set(range(66, 66 + 4201, step)) | {66, 67, 68, 66 + 4200, 1024, 1025}):
            cases.append(("fac", k, L))
    for n in range(0, 17):
        cases.append(("fp", n, 0))
    for n in range(0, 8):
        for nb in (1, 2, 4, 8):
            cases.append(("trl", n, nb))
    return cases


def n_cases(tier, seed):
    return len(_plan(tier))


def run_case(i, tier, seed):
    kind, a, b = _plan(tier)[i]
    rng = random.Random(f"C05-{seed}-{i}")
    obs = {"parses": 0, "leaves_compared": 0, "attitude_counts": 0, "facility_lengths": 0, "trailer_images": 0,
           "channel_counts": 0, "file_pointer_counts": 0}
    problems = []
    if kind == "trl":
        from ceos_alos2.sar_trailer import read_sar_trailer

        imgs = []
        for k in range(a):
            px, ln = rng.randrange(1, 9), rng.randrange(1, 9)
            # every other trailer mixes sample widths between its images (each entry declares its own)
            nb = b if (i % 2 == 0 or k == 0) else rng.choice([w for w in (2, 4) if w != b] + [b])
            data = bytes(rng.randrange(256) for _ in range(px * ln * nb))
            imgs.append({"pixels": px, "lines": ln, "nbytes": nb, "data": data})
        blob = synth.trailer_bytes({"head": gen.fill_record(rng, "trl_head", {}), "images": imgs,
                                    "tail": "".join(rng.choice(gen.INNER) for _ in range(720 - 496 - 26 * a))})
        try:
            header, out = read_sar_trailer(io.BytesIO(blob))
            obs["parses"] += 1
            if len(out) != a:
                problems.append(f"trailer with {a} low-resolution images returned {len(out)}")
            for k, (im, arr) in enumerate(zip(imgs, out)):
                obs["trailer_images"] += 1
                want = np.frombuffer(im["data"], dtype=f">i{im['nbytes']}")
                got = np.asarray(arr)
                if got.size != want.size or not np.array_equal(got.reshape(-1).astype("int64"), want.astype("int64")):
                    problems.append(f"trailer image {k} of {a} ({im['pixels']}x{im['lines']}, {im['nbytes']}-byte samples) does not equal its own bytes")
        except Exception as e:
            problems.append(f"trailer with {a} images of {b}-byte samples: reader raised {harness.exc_sig(e)}")
        sig = f"trl|{a}|{b}"
        sample = {"dimension": "trailer images", "count": a, "bytes_per_sample": b}
    else:
        leader_kw, vol_kw = {}, {}
        if kind == "att":
            leader_kw = {"att_len": a, "n_att": b}
            obs["attitude_counts"] += 1
        elif kind == "ch":
            leader_kw = {"n_ch": a, "n_mp": b}
            obs["channel_counts"] += 1
        elif kind == "fac":
            lens = [rng.randrange(66, 300) for _ in range(4)]
            lens[a] = b
            leader_kw = {"fac_lens": lens}
            obs["facility_lengths"] += 1
        files, info = gen.rich_product(rng, [seed, i], level=["1.1", "1.5"][i % 2], n_images=1, scans=[None], max_lines=2,
                                       max_pixels=2, leader_kw=leader_kw)
        if kind == "fp":
            vol, _ = gen.full_volume(rng, n_fp=a)
            files[info["names"]["vol"]] = synth.volume_bytes(vol)
            obs["file_pointer_counts"] += 1
        root = harness.unique_root("memory", "c05")
        url = synth.install(files, root, "memory")
        try:
            tree = harness.open_tree(url, use_cache=False)
            obs["parses"] += 1
            n1, _ = treecheck.check_metadata(tree, files[info["names"]["led"]], problems)
            n2, _ = treecheck.check_root(tree, files[info["names"]["vol"]], problems)
            obs["leaves_compared"] += n1 + n2
        except Exception as e:
            problems.append(f"open_alos2 raised for an admissible {kind} = {(a, b)}: {harness.exc_sig(e)}")
        finally:
            synth.uninstall(files, root, "memory")
        sig = f"{kind}|{a}|{b}"
        sample = {"dimension": kind, "value": [a, b], "leader": info["leader"]}
    violations = [{"what": f"[{kind} {a},{b}] {p}", "detail": {"dimension": kind, "value": [a, b]}} for p in problems[:5]]
    return {"sig": sig, "evals": 1, "violations": violations, "obs": obs, "sample": sample}


def finish(results, tier, seed):
    return {"exhaustive": True,
            "exhaustive_subdomain": "attitude N 1..136 (L=16384) and tight lengths, channels 1..16 x map projection 0/1, file pointers 0..16, trailer images 0..7 x 4 sample widths"
                                    + ("; every facility record length 66..4266" if tier == "thorough" else "; facility lengths every 23rd + edges")}
