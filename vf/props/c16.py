"""C16 volume-directory fields surface unchanged as root attributes — reference-model monitor."""
import random

from vf import gen, harness, refdec, synth, treecheck

ID = "C16"
LEVEL = "exploration"
RULE = ("seeded volume directory files: every text field of the volume descriptor and text record with printable-ASCII content of "
        "every width (entirely blank, one character, full width, inner blanks, quotes; first and last character non-blank; left/right/centred "
        "placement), all valid creation timestamps incl. leap days and hundredths, 0..16 file-pointer records with random content "
        "in between, spare areas blank; opened through open_alos2. evaluations = root attributes compared; distinct = distinct "
        "(file-pointer count, timestamp class, fs) signatures plus text classes")
ASSUMPTIONS = ["contents begin and end with a non-blank character, so 'stripped of padding' has one reading; printable ASCII only",
               "padding = blanks, or trailing NUL bytes (a zero-initialised buffer); leading NULs are not generated",
               "the creation date-time is compared as an instant (ISO 8601 text parsed back)"]
REQUIRED_OBS = ["products", "attributes_compared", "nul_padded_fields", "many_file_pointers"]
N = {"quick": 600, "thorough": 20000}


def n_cases(tier, seed):
    return N[tier]


def run_case(i, tier, seed):
    rng = random.Random(f"C16-{seed}-{i}")
    classes = {}
    n_fp = i % 17
    if i % 23 == 9:
        n_fp = rng.choice([99, 100, 101, 120, 257])  # the count field has four digits
    inst, icls = gen.rand_instant(rng, ["d60", "d366", "d1", "d365", "rand", "last_ms", "first_ms", "dst-gap", "y2000"][i % 9])
    vol, vinfo = gen.full_volume(rng, n_fp=n_fp, inst=inst, classes=classes)
    if i % 9 == 0:  # every text field at full width
        for rec, key in (("vd", "vd"), ("txt", "txt")):
            for f in synth.fields(rec):
                if f["kind"] == "A_str" and not synth.is_spare(f) and f["name"] in vol[key] and (rec, f["name"]) not in gen.CONSTRAINED:
                    vol[key][f["name"]] = gen.str_text(rng, f["width"], "full")[0]
    if i % 3 == 2:
        # the count may be written zero-padded, left-justified or with an explicit sign (any valid ASCII integer formatting)
        vol["vd"]["number_of_file_pointer_records"] = rng.choice([f"{n_fp:04d}", ["L", str(n_fp)], f"+{n_fp}" if n_fp < 1000 else str(n_fp)])
    nul_padded = []
    if i % 7 == 3:
        # text fields padded with NUL bytes instead of blanks (a writer copying into a zero-initialised buffer): padding all the same
        for rec, key in (("vd", "vd"), ("txt", "txt")):
            for f in synth.fields(rec):
                v = vol[key].get(f["name"])
                if f["kind"] == "A_str" and not gen.is_padding(f) and (rec, f["name"]) not in gen.CONSTRAINED and isinstance(v, str) \
                        and len(v) < f["width"] and rng.random() < 0.5:
                    vol[key][f["name"]] = ["raw", v + "\0" * (f["width"] - len(v))]
                    nul_padded.append(f["name"])
    blanked = []
    if i % 4 == 1:  # a field that is entirely padding surfaces as the empty string
        for rec, key in (("vd", "vd"), ("txt", "txt")):
            for f in synth.fields(rec):
                if f["kind"] == "A_str" and not gen.is_padding(f) and (rec, f["name"]) not in gen.CONSTRAINED and rng.random() < 0.3:
                    vol[key][f["name"]] = None
                    blanked.append(f["name"])
    files, info = gen.simple_product(seed=i, level=["1.1", "1.5"][i % 2], lines=2, pixels=2, volume=vol)
    kind = ["memory", "vfs", "local"][i % 3]
    root = harness.unique_root(kind)
    url = synth.install(files, root, kind)
    problems = []
    n = 0
    try:
        try:
            tree = harness.open_tree(url, use_cache=False)
            n, src = treecheck.check_root(tree, files[info["names"]["vol"]], problems)
        except Exception as e:
            problems.append(f"open_alos2 raised on a well-formed product: {harness.exc_sig(e)}")
    finally:
        synth.uninstall(files, root, kind)
    violations = [{"what": p, "detail": {"n_fp": n_fp, "instant": inst}} for p in problems[:6]]
    sig = [f"fp:{n_fp}|t:{icls}|{kind}|blank:{min(len(blanked), 3)}"] + [f"class:{c}" for c in classes]
    return {"sig": sig, "evals": n, "violations": violations, "obs": {"products": 1, "attributes_compared": n, "nul_padded_fields": len(nul_padded), "many_file_pointers": int(n_fp >= 99)},
            "sample": {"file_pointer_records": n_fp, "creation_instant": inst, "fs": kind}, "nontrivial": n > 0}
