"""C12 well-typed tree — invariant walk over every node of trees produced by the real reader.

For every variable: the advertised dtype is a real numpy dtype of kind b/i/u/f/c/M/m/U and, with the advertised shape,
equals (up to byte order) what loading yields — for the full variable and for C02-style selections of the image;
every attribute is a plain scalar / string / (nested) list or tuple of those; repr, _repr_html_ and nbytes work.
"""
import random

import numpy as np

from vf import contracts, gen, harness, selections, synth

ID = "C12"
LEVEL = "exploration"
RULE = ("seeded products with random content in every record, all levels (1.1 / 1.5 / 3.1), 1-8 images, on memory/local/vfs "
        "filesystems, every second tree obtained through index caches written by a previous open; every node/variable/attribute of the returned tree is walked; per image 25 (quick) / 120 (thorough) "
        "random selections are checked for declared-vs-loaded shape and dtype. evaluations = variables checked; non-trivial = "
        "product whose tree was walked completely; distinct = distinct (level, #images, map projection present, fs) signatures "
        "plus distinct (node depth, dtype kind) pairs seen")
ASSUMPTIONS = ["allowed attribute leaves: Python int/float/bool/str/None and numpy scalars of kind b/i/u/f/c/U",
               "byte order is not part of dtype equality"]
REQUIRED_OBS = ["variables_checked", "attrs_checked", "selections_checked", "repr_ok", "trees_via_cache", "tall_images", "trees_from_creating_open"]

N = {"quick": 200, "thorough": 5000}
NSEL = {"quick": 25, "thorough": 120}
OK_KINDS = set("biufcMmU")
D8_NAMES = {"elevation_angle_at_nadir_of_antenna", "antenna_squint_angle", "platform_velocity",
            "platform_acceleration", "platform_attitude"}
D8_KEY = "C12/l11-nested-substructs-object-dtype"


def n_cases(tier, seed):
    return N[tier]


def attr_ok(v, depth=0):
    if v is None or isinstance(v, (bool, int, float, str)):
        return True
    if isinstance(v, np.generic):
        return v.dtype.kind in "biufcU"
    if isinstance(v, (list, tuple)):
        return all(attr_ok(x, depth + 1) for x in v)
    return False


def same_dtype(a, b):
    a, b = np.dtype(a), np.dtype(b)
    return a.newbyteorder("=") == b.newbyteorder("=")


def run_case(i, tier, seed):
    contracts.install()
    rng = random.Random(f"C12-{seed}-{i}")
    obs = {"tall_images": 0, "variables_checked": 0, "attrs_checked": 0, "selections_checked": 0, "repr_ok": 0, "nodes": 0}
    violations, sigs = [], []
    level = ["1.1", "1.5", "3.1"][i % 3]
    # a few products carry an image with more lines than the default request size (1024) and other round limits
    tall = i % 25 == 7
    kw = {"n_images": 1, "scans": [None], "geoms": [(rng.choice([1025, 1030, 1100, 2049]), 1)]} if tall else {}
    files, info = gen.rich_product(rng, [seed, i], level=level, **kw)
    kind = ["memory", "local", "vfs"][(i // 3) % 3]
    root = harness.unique_root(kind, rng=rng)
    url = synth.install(files, root, kind)
    sample = None
    try:
        rpc = rng.choice([1, 2, 3, 1024])
        via_cache = i % 2 == 1
        try:
            if via_cache:
                # the tree a user gets on every open after the first: image groups decoded from the index cache
                import os

                from vf import cachelib

                rpc_c = rng.choice([1, 4, 1024])
                creating = harness.open_tree(url, use_cache=False, create_cache=True, records_per_chunk=rpc_c)
                if all(os.path.isfile(cachelib.user_cache_file(url, n)) for n in info["names"]["imgs"]):
                    obs["trees_via_cache"] = 1
                if i % 4 == 3:
                    tree, rpc = creating, rpc_c  # the tree handed out by the very open that wrote the caches
                    obs["trees_from_creating_open"] = 1
                else:
                    tree = harness.open_tree(url, use_cache=True, records_per_chunk=rpc)
            else:
                tree = harness.open_tree(url, use_cache=False, records_per_chunk=rpc)
        except Exception as e:
            return {"sig": "open-failed", "evals": 0, "obs": obs, "nontrivial": False,
                    "violations": [{"what": f"open raised on a well-formed product: {harness.exc_sig(e)}", "detail": {"level": level}}]}
        obs["tall_images"] += int(tall)
        sigs.append(f"product|{level}|imgs:{len(info['images'])}|mp:{info['leader']['n_mp']}|{kind}|cache:{int(via_cache)}")
        for node in tree.subtree:
            obs["nodes"] += 1
            ds = node.to_dataset(inherit=False)
            for k, v in ds.attrs.items():
                obs["attrs_checked"] += 1
                if not attr_ok(v):
                    violations.append({"what": f"attribute {node.path}@{k} is not plain data: {type(v).__name__} {repr(v)[:120]}", "detail": {}})
            for name, var in ds.variables.items():
                obs["variables_checked"] += 1
                where = f"{node.path}#{name}"
                for k, v in var.attrs.items():
                    obs["attrs_checked"] += 1
                    if not attr_ok(v):
                        violations.append({"what": f"attribute {where}@{k} is not plain data: {type(v).__name__}", "detail": {}})
                dt = var.dtype
                decl_shape = tuple(var.shape)
                if not isinstance(dt, np.dtype):
                    violations.append({"what": f"{where}: advertised dtype is {type(dt).__name__} {dt!r}, not a numpy dtype", "detail": {}})
                    continue
                sigs.append(f"kind:{dt.kind}|depth:{node.path.count('/')}|ndim:{var.ndim}")
                if dt.kind not in OK_KINDS:
                    v = {"what": f"{where}: dtype {dt} (kind {dt.kind}) is not boolean/integer/float/complex/datetime/timedelta/string",
                         "detail": {"level": level, "first": repr(np.asarray(var.values).ravel()[:1].tolist())[:200]}}
                    if dt.kind == "O" and level == "1.1" and node.path.startswith("/imagery/") and name in D8_NAMES:
                        v["key"] = D8_KEY
                    violations.append(v)
                    continue
                try:
                    a = np.asarray(var.values)
                except Exception as e:
                    violations.append({"what": f"{where}: loading raised {harness.exc_sig(e)}", "detail": {}})
                    continue
                if tuple(a.shape) != decl_shape or not same_dtype(a.dtype, dt):
                    violations.append({"what": f"{where}: declared {decl_shape}/{dt} but loaded {a.shape}/{a.dtype}", "detail": {}})
                try:
                    var.nbytes
                except Exception as e:
                    violations.append({"what": f"{where}: nbytes raised {harness.exc_sig(e)}", "detail": {}})
        for what, fn in (("repr(tree)", lambda: repr(tree)), ("tree._repr_html_()", lambda: tree._repr_html_()),
                         ("tree.nbytes", lambda: tree.nbytes),
                         ("dataset nbytes/repr of every node", lambda: [(n.to_dataset().nbytes, repr(n.to_dataset())) for n in tree.subtree])):
            try:
                fn()
                obs["repr_ok"] += 1
            except Exception as e:
                violations.append({"what": f"{what} raised {harness.exc_sig(e)}", "detail": {"level": level}})
        for n, im in info["images"].items():
            da = tree[f"imagery/{harness.group_name(n)}/data"]
            for _ in range(NSEL[tier]):
                sel = selections.random_selection(rng, im["lines"], im["pixels"])
                try:
                    r = selections.apply(da, sel)
                    decl = (tuple(r.shape), r.dtype)
                    v = np.asarray(r.values)
                except Exception:
                    continue  # whether it may raise is C02's business
                obs["selections_checked"] += 1
                if tuple(v.shape) != decl[0] or not isinstance(decl[1], np.dtype) or not same_dtype(v.dtype, decl[1]):
                    violations.append({"what": f"selection {sel} of {n}: declared {decl[0]}/{decl[1]!r} ({type(decl[1]).__name__}) but loaded {v.shape}/{v.dtype!r}",
                                       "detail": {"shape": [im["lines"], im["pixels"]], "rpc": rpc}})
        sample = {"level": level, "fs": kind, "nodes": obs["nodes"], "variables": obs["variables_checked"],
                  "images": list(info["images"].values())}
    finally:
        synth.uninstall(files, root, kind)
        if i % 2 == 1:
            import shutil

            from vf import cachelib

            shutil.rmtree(cachelib.user_cache_root(), ignore_errors=True)
    for f in contracts.drain():
        violations.append({"what": f"contract {f['contract']} failed", "detail": f["detail"]})
    # one witness per mechanism is enough in the report
    seen, out = set(), []
    for v in violations:
        k = (v.get("key"), v["what"].split(":")[0][-60:]) if v.get("key") else v["what"]
        if k not in seen:
            seen.add(k)
            out.append(v)
    return {"sig": sigs, "evals": obs["variables_checked"], "violations": out, "obs": obs, "sample": sample}
