"""C07 cache transparency — differential canon + event-log / audit-hook monitors + poison oracle.

Per configuration (product x producer x location x filesystem x rpc_write x rpc_read):
  1. reference  = canon(open(use_cache=False, rpc_read))
  2. producer runs (create_cache=True option | CLI adjacent | CLI into the user-cache directory); the expected cache
     files must exist afterwards (premise; producer failure is reported under its own heading)
  3. cached     = open(use_cache=True, rpc_read): at open time no open/read of the image file may happen
     (tracing filesystem for vfs://, audit hook for local files); canon(cached) must equal the reference
  4. poison     : a syntactically valid index describing *other* data is planted at every cache location;
     open(use_cache=False) must equal the reference and must not open / stat-through-fsspec any .index file
  5. no cache   : all caches removed; open(use_cache=True) must equal the reference (normal parse)
"""
import os
import random
import shutil
import subprocess
import sys

from vf import audit, cachelib, canon, contracts, env, gen, harness, synth, tracefs

ID = "C07"
LEVEL = "exploration"
RULE = ("seeded configurations: product (levels 1.1/1.5/3.1, 1-4 images, random content) x producer {option, cli-adjacent, "
        "cli-into-user-dir, cli as a subprocess} x location {user dir, adjacent, both} x filesystem {local path, file://, "
        "memory://, vfs://, lvfs:// = a LocalFileSystem subclass with its own namespace; CLI only for local files, a third of the CLI "
        "configurations with the image files being symbolic links into another directory} x rpc at write time x rpc at read time; plus the equal-root-path-on-"
        "two-filesystems configuration (cache key aliasing). evaluations = opens compared; non-trivial = configuration in "
        "which a cache was really produced and then used; distinct = distinct (producer, location, fs, rpc_w class, rpc_r class, level)")
ASSUMPTIONS = ["adjacent caches exist only for local products (the tool accepts local paths only)",
               "adjacent-vs-user-dir precedence is not asserted, only transparency",
               "os.stat has no audit event: a bare existence test of an index file is not observable; the poison oracle covers influence"]
REQUIRED_OBS = ["configs_with_cache", "cached_opens_compared", "poison_checks", "nocache_opens", "second_cached_opens",
                "redelivered_with_new_cache"]
CASE_TIMEOUT = 600
N = {"quick": 160, "thorough": 4000}
ALIAS_KEY = "C07/cache-key-aliasing-across-filesystems"


def n_cases(tier, seed):
    return N[tier]


def _cli_inprocess(args):
    from ceos_alos2.sar_image import cli

    old = sys.argv
    sys.argv = ["ceos-alos2-create-cache", *args]
    try:
        cli.main()
    except SystemExit as e:
        if e.code not in (0, None):
            raise RuntimeError(f"cli exited {e.code}")
    finally:
        sys.argv = old


def _cli_subprocess(args):
    e = dict(os.environ)
    e["PYTHONPATH"] = env.REPO
    e["PYTHONDONTWRITEBYTECODE"] = "1"
    p = subprocess.run([env.PY, "-m", "ceos_alos2.sar_image", *args], env=e, capture_output=True, text=True, timeout=120)
    if p.returncode != 0:
        raise RuntimeError(f"cli subprocess exited {p.returncode}: {p.stderr[-300:]}")


def _image_events(kind, root, imgs, fs_log, audit_events):
    """open-time accesses to image files (not index files)"""
    hits = []
    names = set(imgs)
    for e in fs_log:
        if e[0] in ("open", "read", "cat") and e[1].rsplit("/", 1)[-1] in names:
            hits.append(e[:3])
    for e in audit_events:
        if e[0] == "open" and os.path.basename(e[1]) in names:
            hits.append(e[:3])
    return hits


def _index_events(fs_log, audit_events):
    hits = []
    for e in fs_log:
        if len(e) > 1 and isinstance(e[1], str) and e[1].endswith(".index"):
            hits.append(e[:3])
    for e in audit_events:
        if len(e) > 1 and isinstance(e[1], str) and e[1].endswith(".index"):
            hits.append(e[:3])
    return hits


def _observed_open(url, roots, **opts):
    tracefs.reset_log()
    audit.arm(roots)
    try:
        tree = harness.open_tree(url, **opts)
    finally:
        ev = audit.disarm()
    return tree, list(tracefs.LOG), ev


def run_case(i, tier, seed):
    contracts.install()
    rng = random.Random(f"C07-{seed}-{i}")
    obs = {"configs_with_cache": 0, "cached_opens_compared": 0, "poison_checks": 0, "nocache_opens": 0,
           "image_access_checks": 0, "alias_configs": 0}
    violations = []
    if i % 16 == 15:
        return _alias_case(i, tier, seed, rng, obs)
    kind = harness.FS_KINDS[i % 5]
    local = kind in ("local", "file")
    producer = rng.choice(["option", "cli-adjacent", "cli-userdir", "cli-subprocess"]) if local else "option"
    location = {"option": "user", "cli-adjacent": "adjacent", "cli-userdir": "user", "cli-subprocess": "adjacent"}[producer]
    if local and rng.random() < 0.25:
        location = "both"
    level = rng.choice(["1.1", "1.5", "3.1"])
    files, info = gen.rich_product(rng, [seed, i], level=level, n_images=rng.choice([1, 2, 2, 4]), max_lines=9, max_pixels=5,
                                   scans=rng.choice([[None], [None], ["F1", "F2"]]))
    imgs = info["names"]["imgs"]
    nmax = max(im["lines"] for im in info["images"].values())
    rpc_w = rng.choice(harness.rpc_candidates(nmax, rng))
    rpc_r = rng.choice(harness.rpc_candidates(nmax, rng))
    # odd directory names only where no CLI run is involved: the tool turns the directory into a URI (pathlib.as_uri), which
    # percent-encodes such characters, and then cannot find its own input -- no cache is produced, so C07's premise is not met
    # (recorded in DESIGN.md as an observation, not a violation of a listed property)
    cli_involved = producer.startswith("cli") or location == "both"
    root = harness.unique_root(kind, rng=None if cli_involved else rng, p_odd=0.5)
    if root[-1] == "x" and not root[-2].isalnum():
        obs["odd_directory_names"] = 1
    url = synth.install(files, root, kind)
    local_root = root if local else None
    linked = local and producer.startswith("cli") and rng.random() < 0.35
    store = root + "-store"
    if linked:
        # archive-view layout: the image files of the product directory are symbolic links into a data store
        os.makedirs(store, exist_ok=True)
        for n in info["names"]["imgs"]:
            os.replace(os.path.join(root, n), os.path.join(store, n))
            os.symlink(os.path.join(store, n), os.path.join(root, n))
        obs["symlinked_products"] = 1
    user_files = [cachelib.user_cache_file(url, n) for n in imgs]
    adj_files = [cachelib.adjacent_cache_file(local_root, n) for n in imgs] if local else []
    roots = tuple(r for r in (cachelib.user_cache_root(), local_root) if r)
    sig = f"{producer}|{location}|{kind}{'+symlinks' if linked else ''}|w:{harness.rpc_class(rpc_w, nmax)}|r:{harness.rpc_class(rpc_r, nmax)}|{level}"
    detail = {"producer": producer, "location": location, "fs": kind, "image_files_are_symlinks": linked, "rpc_write": rpc_w, "rpc_read": rpc_r,
              "images": list(info["images"].values()), "level": level}
    try:
        shutil.rmtree(cachelib.user_cache_root(), ignore_errors=True)
        ref = canon.canon(harness.open_tree(url, use_cache=False, records_per_chunk=rpc_r))
        # --- produce
        def produce():
            if producer == "option" or location == "both":
                t = harness.open_tree(url, use_cache=False, create_cache=True, records_per_chunk=rpc_w)
                # the tree returned by the open that writes the cache is an ordinary tree as well (values loadable, nothing rewritten)
                dw = canon.diff(canon.canon(harness.open_tree(url, use_cache=False, records_per_chunk=rpc_w)), canon.canon(t))
                obs["creating_opens_compared"] = obs.get("creating_opens_compared", 0) + 1
                if dw:
                    violations.append({"what": f"the tree returned by open(create_cache=True) differs from a plain uncached open at {len(dw)} leaves, first: {dw[0]}",
                                       "detail": dict(detail, diff=dw[:5])})
            if producer in ("cli-adjacent", "cli-subprocess") or (location == "both" and producer != "cli-userdir"):
                run = _cli_subprocess if producer == "cli-subprocess" else _cli_inprocess
                for n in imgs:
                    run(["--rpc", str(rpc_w), os.path.join(local_root, n)])
            if producer == "cli-userdir":
                target = os.path.dirname(user_files[0])
                os.makedirs(target, exist_ok=True)
                for n in imgs:
                    _cli_inprocess(["--rpc", str(rpc_w), os.path.join(local_root, n), target])
                if location == "both":
                    for n in imgs:
                        _cli_inprocess(["--rpc", str(rpc_w), os.path.join(local_root, n)])

        try:
            produce()
        except Exception as e:
            violations.append({"what": f"cache producer '{producer}' failed: {harness.exc_sig(e)}", "detail": detail})
            return {"sig": sig, "evals": 0, "violations": violations, "obs": obs, "nontrivial": False}
        expect = (user_files if location in ("user", "both") else []) + (adj_files if location in ("adjacent", "both") else [])
        missing = [p for p in expect if not os.path.isfile(p)]
        if missing:
            violations.append({"what": f"producer '{producer}' left no cache at the documented location(s): {missing[:2]}", "detail": detail})
            return {"sig": sig, "evals": 0, "violations": violations, "obs": obs, "nontrivial": False}
        obs["configs_with_cache"] += 1
        # --- use
        try:
            tree, fs_log, ev = _observed_open(url, roots, use_cache=True, records_per_chunk=rpc_r)
        except Exception as e:
            violations.append({"what": f"open(use_cache=True) raised with a usable cache: {harness.exc_sig(e)}", "detail": detail})
            tree = None
        if tree is not None:
            obs["image_access_checks"] += 1
            hits = _image_events(kind, root, imgs, fs_log, ev)
            if hits:
                violations.append({"what": f"image file accessed at open time although a usable cache exists: {hits[:3]}", "detail": detail})
            if not _index_events(fs_log, ev):
                violations.append({"what": "use_cache=True with a cache present, but no index file was opened", "detail": detail})
            try:
                got = canon.canon(tree)
                d = canon.diff(ref, got)
                obs["cached_opens_compared"] += 1
                if d:
                    violations.append({"what": f"tree via cache differs from the uncached tree at {len(d)} leaves, first: {d[0]}",
                                       "detail": dict(detail, diff=d[:5])})
            except Exception as e:
                violations.append({"what": f"loading values of the cached tree raised: {harness.exc_sig(e)}", "detail": detail})
        # --- a second cached open in the same process with another request size: it must honour *its* records_per_chunk
        others = [r for r in harness.rpc_candidates(nmax, rng) if min(r, nmax) != min(rpc_r, nmax)]
        if others:
            rpc_2 = rng.choice(others)
            try:
                ref2 = canon.canon(harness.open_tree(url, use_cache=False, records_per_chunk=rpc_2))
                got2 = canon.canon(harness.open_tree(url, use_cache=True, records_per_chunk=rpc_2))
                obs["second_cached_opens"] = obs.get("second_cached_opens", 0) + 1
                d = canon.diff(ref2, got2)
                if d:
                    violations.append({"what": f"second cached open (records_per_chunk={rpc_2} after {rpc_r}) differs from the uncached tree at {len(d)} leaves, first: {d[0]}",
                                       "detail": dict(detail, rpc_second=rpc_2, diff=d[:5])})
            except Exception as e:
                violations.append({"what": f"second cached open (records_per_chunk={rpc_2} after {rpc_r}) raised: {harness.exc_sig(e)}", "detail": detail})
        # --- poison: a valid index describing other data at every location; use_cache=False must ignore it
        other_files, other_info = gen.rich_product(random.Random(f"poison-{seed}-{i}"), [seed, i, 99], level=level,
                                                   n_images=len(set(n.split('-')[1] for n in imgs)), max_lines=9, max_pixels=5,
                                                   scans=[None])
        saved = {p: open(p, "rb").read() for p in expect}
        try:
            doc = open(expect[0]).read()
            poison = doc.replace('"rows"', '"rows"').replace("mHz", "kHz")
            if poison == doc:
                poison = doc.replace('"units"', '"unit"')
            for p in set(user_files + adj_files):
                os.makedirs(os.path.dirname(p), exist_ok=True)
                with open(p, "w") as f:
                    f.write(poison)
            tree, fs_log, ev = _observed_open(url, roots, use_cache=False, records_per_chunk=rpc_r)
            obs["poison_checks"] += 1
            hits = _index_events(fs_log, ev)
            if hits:
                violations.append({"what": f"use_cache=False but an index file was accessed: {hits[:3]}", "detail": detail})
            d = canon.diff(ref, canon.canon(tree))
            if d:
                violations.append({"what": f"use_cache=False result influenced by a planted cache: {d[0]}", "detail": detail})
        finally:
            for p in set(user_files + adj_files):
                if os.path.exists(p):
                    os.remove(p)
        # --- no cache present: normal parse
        tree, fs_log, ev = _observed_open(url, roots, use_cache=True, records_per_chunk=rpc_r)
        obs["nocache_opens"] += 1
        d = canon.diff(ref, canon.canon(tree))
        if d:
            violations.append({"what": f"use_cache=True without any cache differs from the uncached tree: {d[0]}", "detail": detail})
        # --- the product is re-delivered in place (same root and names, new content) and its caches are produced again:
        # a cached open must describe the new delivery
        if not linked and i % 2 == 0:
            pols = list(dict.fromkeys(n.split("-")[1] for n in imgs))
            scans = sorted({n.rsplit("-", 1)[-1] for n in imgs if len(n.rsplit("-", 1)[-1]) == 2 and n.rsplit("-", 1)[-1][0] in "BF"}) or [None]
            files2, info2 = gen.rich_product(rng, [seed, i, 2], level=level, n_images=len(pols), pols=pols, scans=scans, max_lines=9, max_pixels=5,
                                             mode="WBD" if scans != [None] else "FBD", scene=info["names"]["scene"])
            if sorted(files2) == sorted(files):
                synth.uninstall(files, root, kind)
                synth.install(files2, root, kind)
                try:
                    produce()
                    ref3 = canon.canon(harness.open_tree(url, use_cache=False, records_per_chunk=rpc_r))
                    got3 = canon.canon(harness.open_tree(url, use_cache=True, records_per_chunk=rpc_r))
                    obs["redelivered_with_new_cache"] = obs.get("redelivered_with_new_cache", 0) + 1
                    d = canon.diff(ref3, got3)
                    if d:
                        violations.append({"what": f"after re-delivery in place and re-creation of the cache the cached tree differs from the uncached one at {len(d)} leaves, first: {d[0]}",
                                           "detail": dict(detail, diff=d[:5])})
                except Exception as e:
                    violations.append({"what": f"after re-delivery in place: {harness.exc_sig(e)}", "detail": detail})
                finally:
                    synth.uninstall(files2, root, kind)
    finally:
        synth.uninstall(files, root, kind)
        shutil.rmtree(store, ignore_errors=True)
        shutil.rmtree(cachelib.user_cache_root(), ignore_errors=True)
    for f in contracts.drain():
        violations.append({"what": f"contract {f['contract']} failed", "detail": f["detail"]})
    return {"sig": sig, "evals": obs["cached_opens_compared"] + obs["poison_checks"] + obs["nocache_opens"],
            "violations": violations, "obs": obs, "sample": detail, "nontrivial": obs["cached_opens_compared"] > 0}


def _alias_case(i, tier, seed, rng, obs):
    """two different products with the same root path on two filesystems share one cache directory key"""
    violations = []
    a_files, a_info = gen.rich_product(random.Random(f"A-{seed}-{i}"), [seed, i, 1], level="1.5", n_images=1, scans=[None], geoms=[(4, 3)])
    b_files, b_info = gen.rich_product(random.Random(f"B-{seed}-{i}"), [seed, i, 2], level="1.5", n_images=1, scans=[None], geoms=[(4, 3)])
    root = harness.unique_root("memory", "alias")
    ua = synth.install(a_files, root, "memory")
    ub = synth.install(b_files, root, "vfs")
    try:
        shutil.rmtree(cachelib.user_cache_root(), ignore_errors=True)
        harness.open_tree(ua, use_cache=False, create_cache=True, records_per_chunk=2)
        ref_b = canon.canon(harness.open_tree(ub, use_cache=False, records_per_chunk=2))
        got_b = canon.canon(harness.open_tree(ub, use_cache=True, records_per_chunk=2))
        obs["alias_configs"] += 1
        d = canon.diff(ref_b, got_b)
        if d:
            only_imagery = all(k[0].startswith("/imagery") for k in d)
            violations.append({"key": ALIAS_KEY if only_imagery else None,
                               "what": f"product on vfs://{root} opened with the cache written for the different product on memory://{root}: {len(d)} leaves differ, first {d[0]}",
                               "detail": {"root": root}})
    finally:
        synth.uninstall(a_files, root, "memory")
        synth.uninstall(b_files, root, "vfs")
        shutil.rmtree(cachelib.user_cache_root(), ignore_errors=True)
    return {"sig": "alias|memory+vfs", "evals": 1, "violations": violations, "obs": obs, "nontrivial": True,
            "sample": {"scenario": "equal root path on memory:// and vfs://", "root": root}}
