"""Instrumented fsspec filesystem (protocol ``vfs``).

Backing store is a process-global dict (``STORE``: absolute path -> bytes) or,
for paths below a registered local directory (``LOCAL_ROOTS``), real files.
Every filesystem-level call and every file-object call is appended to ``LOG``
as a tuple; an optional ``HOOK(event)`` is called *before* the operation takes
effect (yield point / fault injection point — a hook may raise or block).

Events:
  ("open", path, mode) ("seek", path, offset, whence) ("read", path, pos, n, got)
  ("close", path) ("info", path) ("exists", path) ("ls", path) ("cat", path)
  ("pre", op, path, ...)  is passed to HOOK only, never logged.
File objects have independent positions (one BytesIO per open), like real files.
"""
import io
import threading

import fsspec
from fsspec.spec import AbstractBufferedFile, AbstractFileSystem

STORE = {}
LOG = []
HOOK = None
_lock = threading.Lock()


def reset_log():
    del LOG[:]


def _hook(*ev):
    h = HOOK
    if h is not None:
        h(ev)


class TFile(io.BytesIO):
    def __init__(self, path, data):
        super().__init__(data)
        self.path = path
        self._size = len(data)

    def seek(self, off, whence=0):
        _hook("pre", "seek", self.path, off, whence)
        LOG.append(("seek", self.path, off, whence))
        return super().seek(off, whence)

    def read(self, n=-1):
        _hook("pre", "read", self.path, n)
        pos = self.tell()
        b = super().read(n)
        LOG.append(("read", self.path, pos, n, len(b)))
        return b

    def readinto(self, b):  # pragma: no cover - not used by the reader, logged if it ever is
        _hook("pre", "read", self.path, len(b))
        pos = self.tell()
        n = super().readinto(b)
        LOG.append(("read", self.path, pos, len(b), n))
        return n

    def close(self):
        if not self.closed:
            _hook("pre", "close", self.path)
            LOG.append(("close", self.path))
        super().close()


SHARED_HANDLES = [False]  # like fsspec's memory filesystem: every open() of a path returns the SAME file object, rewound
_shared = {}


class TSharedFile(TFile):
    """one object per path (what MemoryFileSystem hands out): position and content are shared by everybody who opened it"""

    def close(self):
        _hook("pre", "close", self.path)
        LOG.append(("close", self.path))  # like MemoryFile, closing does not invalidate the shared object

    def __exit__(self, *a):
        self.close()


BUFFERED = [None]  # None: plain file objects; int: hand out fsspec buffered files (AbstractBufferedFile) with this block size


class TBufFile(AbstractBufferedFile):
    """what remote filesystems (http, s3, ...) hand out: a buffered file with a block size; read/seek are logged at the same
    API boundary as for TFile, range requests of the buffer layer are logged as 'fetch'"""

    def __init__(self, fs, path, data, block_size):
        self._data = data
        super().__init__(fs, path, mode="rb", block_size=block_size, cache_type="readahead", size=len(data))

    def _fetch_range(self, start, end):
        LOG.append(("fetch", self.path, start, end))
        return self._data[start:end]

    def seek(self, loc, whence=0):
        _hook("pre", "seek", self.path, loc, whence)
        LOG.append(("seek", self.path, loc, whence))
        return super().seek(loc, whence)

    def read(self, length=-1):
        _hook("pre", "read", self.path, length)
        pos = self.loc
        b = super().read(length)
        LOG.append(("read", self.path, pos, length, len(b)))
        return b

    def close(self):
        if not self.closed:
            _hook("pre", "close", self.path)
            LOG.append(("close", self.path))
        super().close()


class TraceFS(AbstractFileSystem):
    protocol = "vfs"
    cachable = True  # like real filesystems (local, memory, s3 ...): pickled copies resolve to the same cached instance
    root_marker = "/"

    @classmethod
    def _strip_protocol(cls, path):
        if isinstance(path, list):
            return [cls._strip_protocol(p) for p in path]
        path = str(path)
        if path.startswith("vfs://"):
            path = path[len("vfs://"):]
        if not path.startswith("/"):
            path = "/" + path
        return path.rstrip("/") or "/"

    def _open(self, path, mode="rb", **kw):
        path = self._strip_protocol(path)
        _hook("pre", "open", path, mode)
        LOG.append(("open", path, mode))
        if "r" not in mode or "+" in mode:
            raise PermissionError(f"read-only filesystem: {path}")
        if path not in STORE:
            raise FileNotFoundError(path)
        if SHARED_HANDLES[0]:
            f = _shared.get(path)
            if f is None or f.getbuffer().nbytes != len(STORE[path]):
                f = _shared[path] = TSharedFile(path, STORE[path])
            io.BytesIO.seek(f, 0)
            return f
        if BUFFERED[0]:
            return TBufFile(self, path, STORE[path], BUFFERED[0])
        return TFile(path, STORE[path])

    def info(self, path, **kw):
        path = self._strip_protocol(path)
        LOG.append(("info", path))
        if path in STORE:
            return {"name": path, "size": len(STORE[path]), "type": "file"}
        pre = path.rstrip("/") + "/"
        if any(k.startswith(pre) for k in STORE):
            return {"name": path, "size": 0, "type": "directory"}
        raise FileNotFoundError(path)

    def ls(self, path, detail=True, **kw):
        path = self._strip_protocol(path).rstrip("/")
        LOG.append(("ls", path))
        out = [
            {"name": k, "size": len(v), "type": "file"}
            for k, v in STORE.items()
            if k.rsplit("/", 1)[0] == path
        ]
        if not out and path not in ("", "/") and not any(k.startswith(path + "/") for k in STORE):
            raise FileNotFoundError(path)
        return out if detail else [o["name"] for o in out]

    def cat_file(self, path, start=None, end=None, **kw):
        path = self._strip_protocol(path)
        _hook("pre", "cat", path)
        LOG.append(("cat", path))
        if path not in STORE:
            raise FileNotFoundError(path)
        return STORE[path][start:end]

    def exists(self, path, **kw):
        path = self._strip_protocol(path)
        LOG.append(("exists", path))
        if path in STORE:
            return True
        pre = path.rstrip("/") + "/"
        return any(k.startswith(pre) for k in STORE)

    # any mutation through the filesystem API is a violation in itself; log and refuse
    def _refuse(self, op, path, *a, **k):
        LOG.append((op, self._strip_protocol(path)))
        raise PermissionError(f"read-only filesystem: {op} {path}")

    def pipe_file(self, path, value, **kw):
        self._refuse("pipe", path)

    def rm_file(self, path):
        self._refuse("rm", path)

    def _rm(self, path):
        self._refuse("rm", path)

    def mkdir(self, path, **kw):
        self._refuse("mkdir", path)

    def makedirs(self, path, exist_ok=False):
        self._refuse("makedirs", path)

    def touch(self, path, **kw):
        self._refuse("touch", path)

    def mv(self, path1, path2, **kw):
        self._refuse("mv", path1)


fsspec.register_implementation("vfs", TraceFS, clobber=True)


def reads(log=None, path=None):
    return [e for e in (LOG if log is None else log) if e[0] == "read" and (path is None or e[1] == path)]
