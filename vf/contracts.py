"""icontract contracts on the real functions, applied from the harness by rebinding.

Conditions *record and return True* (a raising contract would change the
execution it observes).  ``EVALS[name]`` counts evaluations, ``FAILS`` collects
witnesses; zero evaluations of a contract a check relies on => inconclusive.
"""
import collections
import sys

import numpy as np

EVALS = collections.Counter()
FAILS = []
_installed = False


class ContractBroken(Exception):
    pass


def _fail(name, **detail):
    if len(FAILS) < 50:
        FAILS.append({"contract": name, "detail": {k: repr(v)[:200] for k, v in detail.items()}})


def drain():
    out = list(FAILS)
    del FAILS[:]
    return out


def _rebind(original, replacement):
    """replace every module attribute that *is* the original (covers `from m import f` sites)"""
    n = 0
    for mod in list(sys.modules.values()):
        d = getattr(mod, "__dict__", None)
        if not d or not getattr(mod, "__name__", "").startswith("ceos_alos2"):
            continue
        for k, v in list(d.items()):
            if v is original:
                d[k] = replacement
                n += 1
    return n


UNAVAILABLE = []  # contracts that could not be attached (the function is gone or has another signature): reported, never fatal


def safe(fn):
    """a condition must never disturb the execution it observes: internal errors are counted and swallowed"""
    import functools

    @functools.wraps(fn)
    def wrapper(*a, **k):
        try:
            return fn(*a, **k)
        except Exception:  # noqa: BLE001
            EVALS[fn.__name__ + ".monitor_error"] += 1
            return True

    return wrapper


def _attach(name, fn):
    try:
        return fn() or 0
    except Exception as e:  # noqa: BLE001
        UNAVAILABLE.append(f"{name}: {type(e).__name__}: {str(e)[:120]}")
        return 0


# ---- conditions (named functions; argument names match the decorated function's) ---------

@safe
def read_chunk_pre(f, offset, size):
    EVALS["read_chunk.pre"] += 1
    if not (isinstance(offset, (int, np.integer)) and offset >= 0 and size >= 0):
        _fail("read_chunk.pre", offset=offset, size=size)
    return True


@safe
def read_chunk_post(f, offset, size, result):
    EVALS["read_chunk.post"] += 1
    if len(result) != size:
        _fail("read_chunk.post", offset=offset, size=size, got=len(result))
    return True


@safe
def getitem_post(self, indexers, result):
    EVALS["Array.__getitem__.post"] += 1
    # expected shape under ORTHOGONAL (outer) semantics, which is what a backend array is asked for: an integer drops its
    # axis, a slice keeps range-length many, an integer array its length, a boolean mask its number of True entries
    try:
        expect = []
        if len(indexers) > len(self.shape):
            raise IndexError("too many indices")
        for k, n in zip(tuple(indexers) + (slice(None),) * (len(self.shape) - len(indexers)), self.shape):
            if isinstance(k, (int, np.integer)):
                if not -n <= k < n:
                    raise IndexError(k)
            elif isinstance(k, slice):
                expect.append(len(range(n)[k]))
            else:
                a = np.asarray(k)
                if a.dtype == bool:
                    if a.shape != (n,):
                        raise IndexError("mask length")
                    expect.append(int(a.sum()))
                elif a.ndim == 1 and a.dtype.kind in "iu":
                    if a.size and (a.min() < -n or a.max() >= n):
                        raise IndexError("out of range")
                    expect.append(int(a.size))
                elif a.ndim == 0 and a.dtype.kind in "iu":
                    pass
                else:
                    raise IndexError("unsupported key")
        expect = tuple(expect)
    except Exception:  # the key was not valid for the shape: nothing to compare
        EVALS["Array.__getitem__.invalid_key"] += 1
        return True
    res = np.asarray(result)
    if tuple(res.shape) != tuple(expect) or res.dtype != np.dtype(self.dtype):
        _fail("Array.__getitem__.post", key=indexers, shape=res.shape, expect=expect, dtype=res.dtype,
              declared=self.dtype)
    return True


@safe
def chunk_offsets_post(byte_ranges, chunks, result):
    EVALS["compute_chunk_offsets.post"] += 1
    prev_end = None
    n = len(byte_ranges)
    for idx in sorted(result):
        info = result[idx]
        start, stop = info["offset"], info["offset"] + info["size"]
        rows = byte_ranges[idx * chunks:(idx + 1) * chunks]
        if not rows or start > min(r[0] for r in rows) or stop < max(r[1] for r in rows) or info["size"] < 0:
            _fail("compute_chunk_offsets.cover", idx=idx, info=info)
        if prev_end is not None and start < prev_end:
            _fail("compute_chunk_offsets.disjoint", idx=idx, start=start, prev_end=prev_end)
        prev_end = stop
    if n and len(result) != -(-n // chunks):
        _fail("compute_chunk_offsets.count", n=n, chunks=chunks, got=len(result))
    return True


@safe
def parse_chunk_post(content, element_size, result):
    EVALS["parse_chunk.post"] += 1
    if len(result) != len(content) // element_size:
        _fail("parse_chunk.post", n=len(result), expect=len(content) // element_size)
    return True


@safe
def read_metadata_post(result):
    EVALS["read_metadata.post"] += 1
    header, metadata = result
    n = header["number_of_sar_data_records"]
    L = header["sar_data_record_length"]
    if len(metadata) != n:
        _fail("read_metadata.count", got=len(metadata), declared=n)
    prev = None
    for m in metadata:
        rs = m["record_start"]
        if prev is not None and rs - prev != L:
            _fail("read_metadata.stride", prev=prev, start=rs, L=L)
            break
        if m["data"]["stop"] - rs != L or not (rs < m["data"]["start"] <= m["data"]["stop"]):
            _fail("read_metadata.extent", start=rs, data=m["data"], L=L)
            break
        prev = rs
    if metadata and metadata[0]["record_start"] != 720:
        _fail("read_metadata.first", start=metadata[0]["record_start"])
    return True


@safe
def wrapper_inv(self):
    EVALS["LazilyIndexedWrapper.inv"] += 1
    if not isinstance(self.dtype, np.dtype) or tuple(self.shape) != tuple(self.array.shape):
        _fail("LazilyIndexedWrapper.inv", dtype=self.dtype, shape=self.shape)
    return True


@safe
def group_inv(self):
    EVALS["Group.inv"] += 1
    import posixpath

    data = getattr(self, "data", None)
    if not isinstance(data, dict):
        return True
    for name, child in data.items():
        if type(child).__name__ == "Group" and child.path != posixpath.join(self.path, name):
            _fail("Group.inv", parent=self.path, name=name, child=child.path)
    return True


@safe
def ydms_post(obj, result):
    EVALS["DatetimeYdms.post"] += 1
    import datetime

    try:
        ok = result.year >= obj["year"] and (result.date() - datetime.date(obj["year"], 1, 1)).days == obj["day_of_year"] - 1
    except Exception:
        ok = False
    if not ok:
        _fail("DatetimeYdms.post", obj=dict(obj), result=result)
    return True


def install():
    """idempotent; returns number of rebinding sites.  Every contract is attached on its own: a function that was renamed,
    removed or re-signatured makes that one contract unavailable (listed in UNAVAILABLE), nothing else."""
    global _installed
    if _installed:
        return 0
    try:
        import icontract
    except Exception:
        UNAVAILABLE.append("icontract is not installed")
        return 0
    _installed = True
    import ceos_alos2  # noqa: F401

    E = ContractBroken

    def c_read_chunk():
        from ceos_alos2 import array

        f = array.read_chunk
        return _rebind(f, icontract.require(read_chunk_pre, error=E, enabled=True)(icontract.ensure(read_chunk_post, error=E, enabled=True)(f)))

    def c_chunk_offsets():
        from ceos_alos2 import array

        f = array.compute_chunk_offsets
        return _rebind(f, icontract.ensure(chunk_offsets_post, error=E, enabled=True)(f))

    def c_parse_chunk():
        from ceos_alos2.sar_image import io as sio

        f = sio.parse_chunk
        return _rebind(f, icontract.ensure(parse_chunk_post, error=E, enabled=True)(f))

    def c_read_metadata():
        from ceos_alos2.sar_image import io as sio

        f = sio.read_metadata
        return _rebind(f, icontract.ensure(read_metadata_post, error=E, enabled=True)(f))

    def c_getitem():
        from ceos_alos2 import array

        array.Array.__getitem__ = icontract.ensure(getitem_post, error=E, enabled=True)(array.Array.__getitem__)
        return 1

    def c_ydms():
        from ceos_alos2 import datatypes

        datatypes.DatetimeYdms._decode = icontract.ensure(ydms_post, error=E, enabled=True)(datatypes.DatetimeYdms._decode)
        return 1

    # invariants evaluated after __init__ (explicit wrappers: the dataclass/BackendArray bases
    # are not icontract.DBC classes, and icontract.invariant on Mapping subclasses wraps every
    # dunder — too intrusive; the hook shape 'assert after construction' is what we want)
    def c_wrapper():
        from ceos_alos2 import xarray as cxarray

        orig_w = cxarray.LazilyIndexedWrapper.__init__

        def w_init(self, *a, **k):
            orig_w(self, *a, **k)
            wrapper_inv(self)

        cxarray.LazilyIndexedWrapper.__init__ = w_init
        return 1

    def c_group():
        from ceos_alos2 import hierarchy

        orig_g = hierarchy.Group.__post_init__

        def g_post(self, *a, **k):
            orig_g(self, *a, **k)
            group_inv(self)

        hierarchy.Group.__post_init__ = g_post
        orig_set = hierarchy.Group.__setitem__

        def g_set(self, item, value):
            orig_set(self, item, value)
            group_inv(self)

        hierarchy.Group.__setitem__ = g_set
        return 2

    sites = 0
    for name, fn in (("read_chunk", c_read_chunk), ("compute_chunk_offsets", c_chunk_offsets), ("parse_chunk", c_parse_chunk),
                     ("read_metadata", c_read_metadata), ("Array.__getitem__", c_getitem), ("DatetimeYdms._decode", c_ydms),
                     ("LazilyIndexedWrapper", c_wrapper), ("Group", c_group)):
        sites += _attach(name, fn)
    return sites


def ok():
    """contracts either observed something or could not be attached at all (a refactoring took their anchor away)"""
    return sum(v for k, v in EVALS.items() if not k.endswith(".monitor_error")) > 0 or bool(UNAVAILABLE)
