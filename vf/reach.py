"""Reach monitor: which source lines of the package under test did this workload execute?

sys.monitoring LINE events on code objects under ${VERIF_REPO}/ceos_alos2 (tests excluded); every location reports once
per process and is then disabled (cost: one callback per executed line per process).  The runner unions the workers'
sets and relates them to the executable lines (co_lines of the compiled sources) and to the files a property is
anchored in: an anchored source file in which no line below module level ran makes the verdict inconclusive.
"""
import json
import os
import sys

from vf import env

HITS = {}
TOOL = 4
_on = False


def _rel(fn):
    root = os.path.join(env.REPO, "ceos_alos2") + os.sep
    if fn.startswith(root) and "/tests/" not in fn:
        return fn[len(env.REPO) + 1:]
    return None


def install():
    global _on
    mon = getattr(sys, "monitoring", None)
    if mon is None or _on:
        return False
    try:
        mon.use_tool_id(TOOL, "vf-reach")
    except ValueError:
        return False
    cache = {}

    def on_line(code, line):
        fn = code.co_filename
        rel = cache.get(fn)
        if rel is None:
            rel = cache[fn] = _rel(fn) or ""
        if rel:
            HITS.setdefault(rel, set()).add(line)
        return mon.DISABLE

    mon.register_callback(TOOL, mon.events.LINE, on_line)
    mon.set_events(TOOL, mon.events.LINE)
    _on = True
    return True


def dump(path):
    with open(path, "w") as f:
        json.dump({k: sorted(v) for k, v in HITS.items()}, f)


def _code_lines(code, acc, funcs, top=True):
    lines = {ln for _, _, ln in code.co_lines() if ln is not None and ln > 0}
    if top:
        acc["module"] |= lines
    else:
        acc["body"] |= lines
        body = sorted(lines - {code.co_firstlineno})
        funcs.append((code.co_qualname, code.co_firstlineno, body))
    for c in code.co_consts:
        if hasattr(c, "co_lines"):
            _code_lines(c, acc, funcs, top=False)


def static_lines():
    """-> {rel: {"body": set(lines inside functions/classes/lambdas), "funcs": [(qualname, first, lines)]}}"""
    out = {}
    root = os.path.join(env.REPO, "ceos_alos2")
    for d, _, files in os.walk(root):
        if "/tests" in d:
            continue
        for f in files:
            if not f.endswith(".py") or f == "testing.py":
                continue
            p = os.path.join(d, f)
            try:
                code = compile(open(p).read(), p, "exec")
            except SyntaxError:
                continue
            acc = {"module": set(), "body": set()}
            funcs = []
            _code_lines(code, acc, funcs)
            out[p[len(env.REPO) + 1:]] = {"body": acc["body"], "funcs": funcs}
    return out


def summarise(hit_files, anchored):
    """hit_files: {rel: set(lines)} (union over workers) -> (coverage dict, list of anchored files never entered)"""
    st = static_lines()
    files = {}
    tot_hit = tot = 0
    never = []
    for rel, info in sorted(st.items()):
        body = info["body"]
        if not body:
            continue
        h = len(body & hit_files.get(rel, set()))
        files[rel[len("ceos_alos2/"):]] = [h, len(body)]
        tot_hit += h
        tot += len(body)
        for q, first, lines in info["funcs"]:
            if rel in anchored and lines and not (set(lines) & hit_files.get(rel, set())) and "<lambda>" not in q and "<genexpr>" not in q \
                    and "<listcomp>" not in q and "<dictcomp>" not in q:
                never.append(f"{rel[len('ceos_alos2/'):]}:{q}")
    dead = [a for a in anchored if a in st and st[a]["body"] and not (st[a]["body"] & hit_files.get(a, set()))]
    anch = {}
    for a in anchored:
        if a in st and st[a]["body"]:
            anch[a[len("ceos_alos2/"):]] = [len(st[a]["body"] & hit_files.get(a, set())), len(st[a]["body"])]
    return ({"lines_in_function_bodies_executed": tot_hit, "lines_in_function_bodies": tot, "anchored_files": anch,
             "per_file": files, "anchored_functions_never_entered": never[:60]}, dead)


def anchored_files(prop):
    try:
        for line in open(os.path.join(env.VERIF, "properties.jsonl")):
            d = json.loads(line)
            if d.get("id") == prop:
                return [f for f in d.get("anchors", {}).get("files", []) if f.endswith(".py")]
    except OSError:
        pass
    return []
