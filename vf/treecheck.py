"""Complete comparison of regions of a returned DataTree with the expectation computed from the file bytes."""
from vf import expect, harness, refdec, speclib


def check_metadata(tree, leader_bytes, problems, skip_time_kinds=("attitude",)):
    src = refdec.leader(leader_bytes)
    exp = expect.expected_region(expect.spec("leader"), src)
    exp.pop("/", None)
    got = {n.path for n in tree["metadata"].subtree}
    if got != set(exp):
        problems.append(f"/metadata node set differs: unexpected {sorted(got - set(exp))[:4]}, missing {sorted(set(exp) - got)[:4]}")
    n = 0
    for path, e in exp.items():
        if path in got:
            before = len(problems)
            expect.compare_node(path, tree[path], e, problems, skip_time_kinds=skip_time_kinds)
            n += len(e["attrs"]) + len(e["vars"])
    return n, src


def check_image_group(tree, file_name, data, problems, check_times=True):
    src = refdec.image_sources(data)
    typ = src["image"]["type"]
    exp = expect.expected_region(expect.spec("image")[typ], src)["."]
    exp["vars"]["data"] = {"dims": ["rows", "columns"], "data": None, "attrs": {}, "tol": 0, "coord": False, "kind": None, "time": None}
    path = f"/imagery/{harness.group_name(file_name)}"
    try:
        node = tree[path]
    except KeyError:
        problems.append(f"{path} missing")
        return 0, src
    expect.compare_node(path, node, exp, problems, skip_values=(path + "#data",), skip_time_kinds=() if check_times else ("ydms", "ydus"))
    return len(exp["attrs"]) + len(exp["vars"]), src


def check_root(tree, volume_bytes, problems):
    """root attributes = volume descriptor + text record fields (stripped) + reference link"""
    import datetime

    src = refdec.volume(volume_bytes)
    vals = src["values"]
    want = {"reference_document": speclib.REFERENCE_DOCUMENT}
    for a, (rec, fld) in speclib.VOLUME_ATTRS.items():
        v = vals[f"{rec}:{fld}"]
        if a == "creation_datetime":
            v = expect.convert("datetime_compact", v, None)[0]
        want[a] = v
    got = dict(tree.attrs)
    for k in set(got) | set(want):
        if k not in want:
            problems.append(f"/: unexpected root attribute {k!r} = {got[k]!r}")
        elif k not in got:
            problems.append(f"/: root attribute {k!r} missing (volume directory says {want[k]!r})")
        elif k == "creation_datetime":
            try:
                same = datetime.datetime.fromisoformat(got[k]) == datetime.datetime.fromisoformat(want[k])
            except Exception:
                same = False
            if not same:
                problems.append(f"/@creation_datetime: {got[k]!r} is not the instant {want[k]!r} written in the volume descriptor")
        elif got[k] != want[k] or type(got[k]) is not type(want[k]):
            problems.append(f"/@{k}: {got[k]!r} != {want[k]!r}")
    return len(want), src


def check_product(tree, files, info, problems):
    """whole-product comparison: structure, root attributes, /metadata, every image group's line metadata and pixels.

    -> number of leaves compared"""
    import numpy as np

    n = 0
    imgs = info["names"]["imgs"]
    if list(tree.children) != ["summary", "metadata", "imagery"]:
        problems.append(f"children of / are {list(tree.children)}")
        return n
    want_groups = [harness.group_name(x) for x in imgs]
    got_groups = list(tree["imagery"].children)
    if got_groups != want_groups:
        problems.append(f"/imagery children {got_groups} != expected {want_groups} (summary order)")
    k, _ = check_root(tree, files[info["names"]["vol"]], problems)
    n += k
    k, _ = check_metadata(tree, files[info["names"]["led"]], problems)
    n += k
    for name, g in zip(imgs, want_groups):
        if g not in got_groups:
            continue
        k, _ = check_image_group(tree, name, files[name], problems)
        n += k
        im = refdec.image(files[name])
        try:
            bits = refdec.bits_of(tree[f"imagery/{g}/data"].values)
            want = refdec.samples_bits(im)
            if bits.shape != want.shape or not np.array_equal(bits, want):
                problems.append(f"/imagery/{g}: pixels are not those of {name}")
            n += int(bits.size)
        except Exception as e:  # noqa: BLE001
            problems.append(f"/imagery/{g}: loading pixels raised {harness.exc_sig(e)}")
    return n
