"""sys.addaudithook monitor: every open() with mode/flags and every os-level mutation, while armed.

Catches file access that bypasses fsspec (the cache code uses pathlib directly).  os.stat has no audit event, so a bare
existence test is not observable this way (stated in DESIGN.md).
"""
import os
import sys
import threading

EVENTS = []
_armed = False
_installed = False
_roots = ()
_lock = threading.Lock()

MUTATORS = {"os.mkdir", "os.remove", "os.rename", "os.rmdir", "os.truncate", "os.link", "os.symlink", "os.chmod",
            "os.chown", "os.utime", "shutil.rmtree", "shutil.move", "shutil.copyfile", "shutil.copytree", "os.removexattr",
            "os.setxattr", "tempfile.mkstemp", "tempfile.mkdtemp"}


def _hook(event, args):
    if not _armed:
        return
    if event == "open":
        path, mode, flags = args[0], args[1], args[2]
        if not isinstance(path, (str, bytes, os.PathLike)):
            return
        p = os.fspath(path)
        if isinstance(p, bytes):
            p = p.decode("utf-8", "replace")
        if _roots and not p.startswith(_roots):
            return
        write = bool(flags & (os.O_WRONLY | os.O_RDWR | os.O_CREAT | os.O_TRUNC | os.O_APPEND)) if isinstance(flags, int) else \
            any(c in (mode or "") for c in "wax+")
        EVENTS.append(("open", p, mode, flags, write))
    elif event in MUTATORS:
        paths = [os.fspath(a) for a in args if isinstance(a, (str, bytes, os.PathLike))]
        paths = [p.decode() if isinstance(p, bytes) else p for p in paths]
        if _roots and not any(p.startswith(_roots) for p in paths):
            return
        EVENTS.append((event, *paths))


def install():
    global _installed
    if not _installed:
        sys.addaudithook(_hook)
        _installed = True


def arm(roots=()):
    """start recording; only paths below one of ``roots`` are kept (empty = everything)"""
    global _armed, _roots
    install()
    del EVENTS[:]
    _roots = tuple(roots)
    _armed = True


def disarm():
    global _armed
    _armed = False
    return list(EVENTS)


def writes(events):
    return [e for e in events if (e[0] == "open" and e[4]) or e[0] != "open"]
