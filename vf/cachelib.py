"""Cache locations (frozen documentation of where the reader keeps index files), snapshots, fresh-process references."""
import hashlib
import json
import os
import subprocess
import sys

from vf import env


def user_cache_root():
    return os.path.join(os.environ["XDG_CACHE_HOME"], "xarray-ceos-alos2")


def protocol_less_root(url):
    for p in ("file://", "memory://", "vfs://", "lvfs://"):
        if url.startswith(p):
            url = url[len(p):]
    if not url.startswith("/"):
        url = "/" + url
    return url.rstrip("/")


def user_cache_file(url, image_name):
    root = protocol_less_root(url)
    return os.path.join(user_cache_root(), hashlib.sha256(root.encode()).hexdigest(), image_name + ".index")


def adjacent_cache_file(local_root, image_name):
    return os.path.join(local_root, image_name + ".index")


def snapshot(directory):
    """{relative path: (size, sha256, mtime_ns)} of every file below directory"""
    out = {}
    if not os.path.isdir(directory):
        return out
    for base, dirs, files in os.walk(directory):
        for f in files:
            p = os.path.join(base, f)
            try:
                st = os.stat(p)
                with open(p, "rb") as fh:
                    h = hashlib.sha256(fh.read()).hexdigest()
            except OSError:
                continue
            out[os.path.relpath(p, directory)] = (st.st_size, h, st.st_mtime_ns)
        for d in dirs:
            out[os.path.relpath(os.path.join(base, d), directory) + "/"] = ("dir",)
    return out


def snapshot_diff(a, b):
    ch = {}
    for k in set(a) | set(b):
        if a.get(k) != b.get(k):
            ch[k] = ("added" if k not in a else "removed" if k not in b else "modified")
    return ch


_REF_SCRIPT = r'''
import json, sys
sys.path.insert(0, {verif!r})
from vf import env
env.bootstrap(cache_home={cache!r})
from vf import canon, harness, tracefs
req = json.load(sys.stdin)
out = {{}}
for key, (url, opts) in req.items():
    try:
        out[key] = {{"ok": canon.canon(harness.open_tree(url, **opts))}}
    except BaseException as e:
        out[key] = {{"error": type(e).__name__ + ": " + str(e)[:300]}}
json.dump(out, sys.stdout)
'''


def fresh_process_canons(requests, cache_home, timeout=300, hashseed="0"):
    """open products in a NEW interpreter (its own empty or given cache dir) and return their canonical leaf maps.

    requests: {key: (url, backend_options)}; local / file:// products only (memory filesystems are per process)."""
    script = _REF_SCRIPT.format(verif=env.VERIF, cache=cache_home)
    e = dict(os.environ)
    e["PYTHONHASHSEED"] = hashseed
    e["PYTHONDONTWRITEBYTECODE"] = "1"
    p = subprocess.run([env.PY, "-c", script], input=json.dumps(requests), capture_output=True, text=True,
                       timeout=timeout, env=e, cwd=env.VERIF)
    if p.returncode != 0:
        raise RuntimeError(f"reference process failed: {p.stderr[-1500:]}")
    return json.loads(p.stdout)
