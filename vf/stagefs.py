"""A second custom filesystem (protocol ``lvfs``): a LocalFileSystem *subclass* whose namespace is not the host's.

Paths such as ``lvfs:///p12/IMG-...`` live below ``BASE`` on disk; a default-constructed local filesystem cannot find
them.  Code that decides "same kind of filesystem, no need to use the caller's" is therefore visible: it reads
``/p12/...`` from the host and fails (or reads another file).  Used by C01/C07 as one more "custom" filesystem.
"""
import os

import fsspec
from fsspec.implementations.local import LocalFileSystem

BASE = [None]


def base():
    if BASE[0] is None:
        from vf import env

        BASE[0] = os.path.join(env.scratch(), "lvfs-store")
        os.makedirs(BASE[0], exist_ok=True)
    return BASE[0]


class StagingFS(LocalFileSystem):
    protocol = "lvfs"
    cachable = False

    @classmethod
    def _strip_protocol(cls, path):
        path = str(path)
        if path.startswith("lvfs://"):
            path = path[len("lvfs://"):]
        if not path.startswith("/"):
            path = "/" + path
        return path.rstrip("/") or "/"

    def unstrip_protocol(self, name):
        return "lvfs://" + self._strip_protocol(name)

    def _real(self, path):
        return base() + self._strip_protocol(path)

    def _ns(self, real):
        return real[len(base()):] or "/"

    def _open(self, path, mode="rb", block_size=None, **kwargs):
        return super()._open(self._real(path), mode=mode, block_size=block_size, **kwargs)

    def info(self, path, **kwargs):
        out = dict(super().info(self._real(path), **kwargs))
        out["name"] = self._ns(out["name"])
        return out

    def ls(self, path, detail=False, **kwargs):
        res = super().ls(self._real(path), detail=detail, **kwargs)
        if detail:
            return [dict(r, name=self._ns(r["name"])) for r in res]
        return [self._ns(r) for r in res]

    def lexists(self, path, **kwargs):
        return os.path.lexists(self._real(path))

    def exists(self, path, **kwargs):
        return os.path.exists(self._real(path))

    def isfile(self, path):
        return os.path.isfile(self._real(path))

    def isdir(self, path):
        return os.path.isdir(self._real(path))

    def mkdir(self, path, create_parents=True, **kwargs):
        return super().mkdir(self._real(path), create_parents=create_parents, **kwargs)

    def makedirs(self, path, exist_ok=False):
        return super().makedirs(self._real(path), exist_ok=exist_ok)

    def rm_file(self, path):
        return super().rm_file(self._real(path))

    def rm(self, path, recursive=False, maxdepth=None):
        import shutil

        for p in ([path] if isinstance(path, str) else path):
            r = self._real(p)
            if os.path.isdir(r):
                shutil.rmtree(r)
            else:
                os.remove(r)


fsspec.register_implementation("lvfs", StagingFS, clobber=True)
