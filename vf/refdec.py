"""Reference decoder: bytes + frozen layout -> values, written independently of the repository.

Numbers are parsed with decimal/fractions (correctly rounded doubles), no regex
or adapter is shared with the code under test.
"""
import datetime
import math
from decimal import Decimal
from fractions import Fraction

from vf import synth

NAN = float("nan")


def a_int(text):
    t = text.strip(" ")
    if t == "":
        return -1
    sign = 1
    body = t
    if body[0] in "+-":
        sign = -1 if body[0] == "-" else 1
        body = body[1:]
    if not body or any(c not in "0123456789" for c in body):
        raise ValueError(f"not an ASCII integer: {text!r}")
    v = 0
    for c in body:
        v = v * 10 + (ord(c) - 48)
    return sign * v


def a_float_exact(text):
    """-> Fraction or None (blank)"""
    t = text.strip(" ")
    if t == "":
        return None
    return Fraction(Decimal(t))


def a_float(text):
    t = text.strip(" ")
    if t == "":
        return NAN
    d = Decimal(t)
    if d.is_nan():
        return NAN
    if d.is_infinite():
        return math.inf if d > 0 else -math.inf
    f = float(Fraction(d)) if d != 0 else (-0.0 if d.is_signed() else 0.0)
    return f


def dec_field(f, b):
    kind = synth.base_kind(f)
    if kind == "A_int":
        v = a_int(b.decode("ascii"))
    elif kind == "A_float":
        v = a_float(b.decode("ascii"))
    elif kind == "A_str":
        v = b.decode("ascii").strip(" ")
    elif kind == "A_complex":
        h = len(b) // 2
        v = (a_float(b[:h].decode("ascii")), a_float(b[h:].decode("ascii")))
    elif kind in ("u8", "u16", "u32", "u64"):
        v = int.from_bytes(b, "big")
    elif kind == "flag":
        v = int.from_bytes(b, "big") != 0
    elif kind == "bytes":
        v = b.strip(b"\0")
    elif kind == "ydms":
        v = (int.from_bytes(b[0:4], "big"), int.from_bytes(b[4:8], "big"), int.from_bytes(b[8:12], "big"))
    elif kind == "ydus":
        v = int.from_bytes(b, "big")
    else:
        raise ValueError(kind)
    if f["kind"] == "enum":
        rev = {code: name for name, code in f["enum"].items()}
        v = rev.get(v, v)
    return v


def record(rec, data, base=0):
    out = {}
    for f in synth.fields(rec):
        out[f["name"]] = dec_field(f, data[base + f["off"]: base + f["off"] + f["width"]])
    return out


def raw_text(rec, name, data, base=0):
    f = synth.field(rec, name)
    return data[base + f["off"]: base + f["off"] + f["width"]]


def instant(year, doy, ms=0, us=0):
    """the one calendar rule (C17): day-of-year 1 = 1 January"""
    return (datetime.datetime(year, 1, 1) + datetime.timedelta(days=doy - 1, milliseconds=ms, microseconds=us))


def ns_since_epoch(dt):
    delta = dt - datetime.datetime(1970, 1, 1)
    return (delta.days * 86400 + delta.seconds) * 10 ** 9 + delta.microseconds * 1000


# ----------------------------------------------------------------------------
# image files

PREFIX = {"C*8": ("sig", 8), "IU2": ("proc", 2)}


def image(data):
    """-> dict(type, lines, pixels, reclen, rows: [bytes], starts: [(record_start, data_start, data_stop)], fd, prefix)"""
    fd = record("img_fd", data, 0)
    typ = fd["prefix_suffix_data_locators.sar_data_format_type_code"]
    rec, bps = PREFIX[typ]
    n = fd["number_of_sar_data_records"]
    reclen = fd["sar_data_record_length"]
    plen = synth.size(rec)
    lines = fd["sar_related_data_in_the_record.number_of_lines_per_dataset"]
    pixels = fd["sar_related_data_in_the_record.number_of_data_groups_per_line"]
    rows, starts = [], []
    for i in range(n):
        s = 720 + i * reclen
        rows.append(data[s + plen: s + reclen])
        starts.append((s, s + plen, s + reclen))
    return {"type": typ, "rec": rec, "bps": bps, "lines": lines, "pixels": pixels, "n_records": n,
            "reclen": reclen, "rows": rows, "starts": starts, "fd": fd}


def image_prefixes(data, im=None):
    im = im or image(data)
    return [record(im["rec"], data, s) for s, _, _ in im["starts"]]


def samples_bits(im):
    """expected sample matrix as unsigned integers (uint16 for IU2; uint32 pairs re,im for C*8)"""
    import numpy as np

    if im["type"] == "IU2":
        return np.stack([np.frombuffer(r, ">u2").astype(np.uint16) for r in im["rows"]]) if im["rows"] else np.zeros((0, im["pixels"]), np.uint16)
    return np.stack([np.frombuffer(r, ">u4").astype(np.uint32) for r in im["rows"]]) if im["rows"] else np.zeros((0, 2 * im["pixels"]), np.uint32)


def bits_of(values):
    """bit view of loaded values, comparable with samples_bits"""
    import numpy as np

    a = np.ascontiguousarray(values)
    if a.dtype == np.complex64:
        return a.view(np.uint32).reshape(a.shape[:-1] + (a.shape[-1] * 2,)) if a.ndim else a.reshape(1).view(np.uint32)
    if a.dtype.kind == "u" and a.dtype.itemsize == 2:
        return a.astype(np.uint16)
    raise TypeError(f"unexpected dtype {a.dtype}")
