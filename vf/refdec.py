"""Reference decoder: bytes + frozen layout -> values, written independently of the repository.

Numbers are parsed with decimal/fractions (correctly rounded doubles), no regex
or adapter is shared with the code under test.
"""
import datetime
import math
from decimal import Decimal
from fractions import Fraction

from vf import synth

NAN = float("nan")


def a_int(text):
    t = text.strip(" ")
    if t == "":
        return -1
    sign = 1
    body = t
    if body[0] in "+-":
        sign = -1 if body[0] == "-" else 1
        body = body[1:]
    if not body or any(c not in "0123456789" for c in body):
        raise ValueError(f"not an ASCII integer: {text!r}")
    v = 0
    for c in body:
        v = v * 10 + (ord(c) - 48)
    return sign * v


def a_float_exact(text):
    """-> Fraction or None (blank)"""
    t = text.strip(" ")
    if t == "":
        return None
    return Fraction(Decimal(t))


def a_float(text):
    t = text.strip(" ")
    if t == "":
        return NAN
    d = Decimal(t)
    if d.is_nan():
        return NAN
    if d.is_infinite():
        return math.inf if d > 0 else -math.inf
    f = float(Fraction(d)) if d != 0 else (-0.0 if d.is_signed() else 0.0)
    return f


def dec_field(f, b):
    kind = synth.base_kind(f)
    if kind == "A_int":
        v = a_int(b.decode("ascii"))
    elif kind == "A_float":
        v = a_float(b.decode("ascii"))
    elif kind == "A_str":
        v = b.decode("ascii").rstrip("\0").strip(" ")  # padding = trailing NUL bytes, then blanks on either side
    elif kind == "A_complex":
        h = len(b) // 2
        v = (a_float(b[:h].decode("ascii")), a_float(b[h:].decode("ascii")))
    elif kind in ("u8", "u16", "u32", "u64"):
        v = int.from_bytes(b, "big")
    elif kind == "flag":
        v = int.from_bytes(b, "big") != 0
    elif kind == "bytes":
        v = b.strip(b"\0")
    elif kind == "ydms":
        v = (int.from_bytes(b[0:4], "big"), int.from_bytes(b[4:8], "big"), int.from_bytes(b[8:12], "big"))
    elif kind == "ydus":
        v = int.from_bytes(b, "big")
    else:
        raise ValueError(kind)
    if f["kind"] == "enum":
        rev = {code: name for name, code in f["enum"].items()}
        v = rev.get(v, v)
    return v


def record(rec, data, base=0):
    out = {}
    for f in synth.fields(rec):
        out[f["name"]] = dec_field(f, data[base + f["off"]: base + f["off"] + f["width"]])
    return out


def raw_text(rec, name, data, base=0):
    f = synth.field(rec, name)
    return data[base + f["off"]: base + f["off"] + f["width"]]


def instant(year, doy, ms=0, us=0):
    """the one calendar rule (C17): day-of-year 1 = 1 January"""
    return (datetime.datetime(year, 1, 1) + datetime.timedelta(days=doy - 1, milliseconds=ms, microseconds=us))


def ns_since_epoch(dt):
    delta = dt - datetime.datetime(1970, 1, 1)
    return (delta.days * 86400 + delta.seconds) * 10 ** 9 + delta.microseconds * 1000


# ----------------------------------------------------------------------------
# image files

PREFIX = {"C*8": ("sig", 8), "IU2": ("proc", 2)}


def image(data):
    """-> dict(type, lines, pixels, reclen, rows: [bytes], starts: [(record_start, data_start, data_stop)], fd, prefix)"""
    fd = record("img_fd", data, 0)
    typ = fd["prefix_suffix_data_locators.sar_data_format_type_code"]
    rec, bps = PREFIX[typ]
    n = fd["number_of_sar_data_records"]
    reclen = fd["sar_data_record_length"]
    plen = synth.size(rec)
    lines = fd["sar_related_data_in_the_record.number_of_lines_per_dataset"]
    pixels = fd["sar_related_data_in_the_record.number_of_data_groups_per_line"]
    rows, starts = [], []
    for i in range(n):
        s = 720 + i * reclen
        rows.append(data[s + plen: s + reclen])
        starts.append((s, s + plen, s + reclen))
    return {"type": typ, "rec": rec, "bps": bps, "lines": lines, "pixels": pixels, "n_records": n,
            "reclen": reclen, "rows": rows, "starts": starts, "fd": fd}


def image_prefixes(data, im=None):
    im = im or image(data)
    return [record(im["rec"], data, s) for s, _, _ in im["starts"]]


def samples_bits(im):
    """expected sample matrix as unsigned integers (uint16 for IU2; uint32 pairs re,im for C*8)"""
    import numpy as np

    if im["type"] == "IU2":
        return np.stack([np.frombuffer(r, ">u2").astype(np.uint16) for r in im["rows"]]) if im["rows"] else np.zeros((0, im["pixels"]), np.uint16)
    return np.stack([np.frombuffer(r, ">u4").astype(np.uint32) for r in im["rows"]]) if im["rows"] else np.zeros((0, 2 * im["pixels"]), np.uint32)


def bits_of(values):
    """bit view of loaded values, comparable with samples_bits"""
    import numpy as np

    a = np.ascontiguousarray(values)
    if a.dtype == np.complex64:
        return a.view(np.uint32).reshape(a.shape[:-1] + (a.shape[-1] * 2,)) if a.ndim else a.reshape(1).view(np.uint32)
    if a.dtype.kind == "u" and a.dtype.itemsize == 2:
        return a.astype(np.uint16)
    raise TypeError(f"unexpected dtype {a.dtype}")


# ----------------------------------------------------------------------------
# leader, volume directory: every field of every record, addressed as "<rec>:<field>" / "<rec>:<i>:<field>"

ABS = {}  # filled as a side effect of the last decode: source -> (absolute offset, width, record)


def _rec(out, raw, prefix, rec, data, base):
    for f in synth.fields(rec):
        b = data[base + f["off"]: base + f["off"] + f["width"]]
        key = f"{prefix}:{f['name']}"
        raw[key] = b
        ABS[key] = (base + f["off"], f["width"], rec)
        try:
            out[key] = dec_field(f, b)
        except Exception as e:  # the oracle only needs the fields that surface; keep the error for those that do
            out[key] = e


def leader(data):
    """-> dict(values, raw, counts, offsets).  Record sequencing follows the bytes the file declares."""
    out, raw, off = {}, {}, {}
    ABS.clear()
    pos = 0
    _rec(out, raw, "led_fd", "led_fd", data, pos)
    off["led_fd"] = pos
    n_mp = out["led_fd:map_projection.number_of_records"]
    pos += 720
    off["ds"] = pos
    _rec(out, raw, "ds", "ds", data, pos)
    pos += 4096
    for i in range(n_mp):
        off[f"mp{i}"] = pos
        _rec(out, raw, "mp" if i == 0 else f"mp{i}", "mp", data, pos)
        pos += 1620
    off["pp"] = pos
    _rec(out, raw, "pp", "pp", data, pos)
    pos += 4680
    off["att"] = pos
    _rec(out, raw, "att", "att_head", data, pos)
    att_len = out["att:preamble.record_length"]
    n_att = out["att:number_of_points"]
    for i in range(n_att):
        _rec(out, raw, f"att:{i}", "att_pt", data, pos + 16 + 120 * i)
    pos += att_len
    off["rad"] = pos
    _rec(out, raw, "rad", "rad", data, pos)
    pos += 9860
    off["dq"] = pos
    _rec(out, raw, "dqh", "dq_head", data, pos)
    n_ch = out["dqh:number_of_channels"]
    for i in range(n_ch):
        _rec(out, raw, f"dqc:{i}", "dq_cal", data, pos + 222 + 32 * i)
    _rec(out, raw, "dqg", "dq_geo", data, pos + 222 + 512)
    for i in range(n_ch):
        _rec(out, raw, f"dqm:{i}", "dq_mis", data, pos + 222 + 512 + 96 + 32 * i)
    pos += 1620
    for k in range(1, 5):
        off[f"fac{k}"] = pos
        _rec(out, raw, f"fac{k}", "fac_head", data, pos)
        pos += out[f"fac{k}:preamble.record_length"]
    off["f5"] = pos
    _rec(out, raw, "f5", "f5", data, pos)
    pos += 5000
    return {"values": out, "raw": raw, "counts": {"n_mp": n_mp, "n_att": n_att, "n_ch": n_ch, "att_len": att_len},
            "offsets": off, "end": pos}


def volume(data):
    out, raw = {}, {}
    ABS.clear()
    _rec(out, raw, "vd", "vd", data, 0)
    n = out["vd:number_of_file_pointer_records"]
    for i in range(n):
        _rec(out, raw, f"fp:{i}", "fp", data, 360 * (1 + i))
    _rec(out, raw, "txt", "txt", data, 360 * (1 + n))
    return {"values": out, "raw": raw, "counts": {"n_fp": n}, "end": 360 * (2 + n)}


def image_sources(data):
    """every field of the image descriptor ("fd:<field>") and of every line prefix ("ln:<i>:<field>")"""
    out, raw = {}, {}
    ABS.clear()
    _rec(out, raw, "fd", "img_fd", data, 0)
    im = image(data)
    for i, (s, _, _) in enumerate(im["starts"]):
        _rec(out, raw, f"ln:{i}", im["rec"], data, s)
    return {"values": out, "raw": raw, "counts": {"n_lines": im["n_records"]}, "image": im}
