"""Seeded generators of product models (value classes are named so evidence can count them).

Everything here produces *text / ints to be written*; what those bytes mean is
decided independently by vf/refdec.py from the bytes themselves.
"""
import calendar
import random
import string

from vf import synth

PRINTABLE = "".join(chr(c) for c in range(0x21, 0x7F))  # no blank: used for first/last characters
INNER = PRINTABLE + "   "


# ----------------------------------------------------------------------------
# texts

def float_text(rng, w, cls=None):
    """a valid ASCII float of at most w characters; returns (text, class)"""
    cls = cls or rng.choice(["F", "E", "Efull", "int", "zero", "plus", "tiny", "huge", "lead0", "dot"])
    sign = rng.choice(["", "-"])
    if cls == "zero":
        t = rng.choice(["0", "0.0", "-0.0", "0E+00", "0.000"])
    elif cls == "int":
        t = sign + str(rng.randrange(0, 10 ** min(w - 2, 15)))
    elif cls == "F":
        nd = rng.randrange(1, max(2, w - 3))
        ip = rng.randrange(0, 10 ** rng.randrange(1, max(2, min(6, w - 2 - nd))))
        t = f"{sign}{ip}." + "".join(rng.choice(string.digits) for _ in range(nd))
    elif cls in ("E", "plus", "lead0"):
        nd = rng.randrange(1, max(2, w - 7))
        m = f"{rng.randrange(1, 10)}." + "".join(rng.choice(string.digits) for _ in range(nd))
        e = rng.randrange(-30, 31)
        t = f"{sign}{m}E{e:+03d}"
        if cls == "plus" and not sign and len(t) < w:
            t = "+" + t
        if cls == "lead0" and len(t) < w - 1:
            t = sign + "0" * (w - len(t) - 1) + t[len(sign):]
    elif cls == "Efull":
        # mantissa fills the whole field, so a one byte shift changes the value
        nd = w - len(sign) - 2 - 4
        if nd < 1:
            return float_text(rng, w, "E")
        m = f"{rng.randrange(1, 10)}." + "".join(rng.choice(string.digits) for _ in range(nd))
        t = f"{sign}{m}E{rng.randrange(-9, 10):+03d}"
    elif cls == "tiny":
        t = f"{sign}{rng.randrange(1, 10)}.{rng.randrange(0, 10)}E-{rng.randrange(100, 308)}"
    elif cls == "huge":
        t = f"{sign}{rng.randrange(1, 10)}.{rng.randrange(0, 10)}E+{rng.randrange(100, 308)}"
    elif cls == "dot":
        t = rng.choice([f"{sign}.{rng.randrange(1, 1000)}", f"{sign}{rng.randrange(0, 1000)}."])
    else:
        raise ValueError(cls)
    if len(t) > w:
        return float_text(rng, w, "int" if w < 8 else "E")
    return t, cls


def int_text(rng, w, cls=None, lo=None, hi=None):
    cls = cls or rng.choice(["small", "max", "zero", "neg", "plus", "lead0", "rand"])
    if cls == "zero":
        t = "0"
    elif cls == "max":
        t = "9" * w
    elif cls == "neg" and w >= 2:
        t = "-" + str(rng.randrange(1, 10 ** (w - 1)))
    elif cls == "plus" and w >= 2:
        t = "+" + str(rng.randrange(0, 10 ** (w - 1)))
    elif cls == "lead0" and w >= 2:
        t = str(rng.randrange(0, 10 ** (w - 1))).rjust(w, "0")
    elif cls == "small":
        t = str(rng.randrange(0, 10))
    else:
        t = str(rng.randrange(0, 10 ** w))
        cls = "rand"
    return t, cls


def str_text(rng, w, cls=None):
    """printable ASCII, first and last character non-blank; '' never (that is the blank class)"""
    cls = cls or rng.choice(["full", "short", "one", "inner", "quote", "full", "short", "inner", "digits", "date"])
    if cls == "one" or w == 1:
        return rng.choice(PRINTABLE), "one"
    if cls == "digits":
        # free text that happens to look like a number
        return "".join(rng.choice(string.digits) for _ in range(rng.randrange(1, w + 1))), cls
    if cls == "date":
        # free text that happens to look like a date / time
        y, m, d = rng.randrange(2014, 2050), rng.randrange(1, 13), rng.randrange(1, 29)
        forms = [f"{y % 100:02d}{m:02d}{d:02d}", f"{y}{m:02d}{d:02d}", f"{y}-{m:02d}-{d:02d}", f"{y}{m:02d}{d:02d}120000", f"{y}-{m:02d}-{d:02d}T12:00:00"]
        forms = [f for f in forms if len(f) <= w]
        if forms:
            return rng.choice(forms), cls
        cls = "short"
    if cls == "full":
        n = w
    else:
        n = rng.randrange(2, w + 1)
    mid = "".join(rng.choice(INNER if cls != "short" else PRINTABLE) for _ in range(n - 2))
    if cls == "quote" and n > 3:
        mid = mid[: n - 3] + rng.choice("\"'=")
    return rng.choice(PRINTABLE) + mid + rng.choice(PRINTABLE), cls


def justify(rng, text, w, kind):
    """random admissible placement of text inside the field"""
    if len(text) >= w:
        return text
    r = rng.random()
    if r < 0.4:
        return text  # default justification
    if r < 0.7:
        return ["L", text]
    if r < 0.9:
        return ["R", text]
    pad = w - len(text)
    left = rng.randrange(0, pad + 1)
    return ["raw", " " * left + text + " " * (pad - left)]


# ----------------------------------------------------------------------------
# instants

DST_GAPS = [(2021, 3, 28, 2, 30), (2024, 3, 31, 2, 15), (2021, 3, 14, 2, 30), (2025, 3, 9, 2, 45), (2021, 10, 3, 2, 10), (2022, 10, 2, 2, 20),
            (2021, 9, 26, 3, 0), (2023, 9, 24, 3, 30), (2016, 3, 27, 2, 59), (2038, 3, 28, 2, 1)]

def rand_instant(rng, cls=None):
    """-> (year, month, day, day_of_year, ms_of_day, us_extra) ; class"""
    cls = cls or rng.choice(["d1", "d59", "d60", "d365", "d366", "rand", "rand", "first_ms", "last_ms", "dst-gap", "rand", "y2000"])
    if cls == "dst-gap":
        # wall-clock times that do not exist in some time zone (spring-forward gaps): harmless for a format that has no zone
        y, m, d, hh, mm = rng.choice(DST_GAPS)
        import datetime

        doy = (datetime.date(y, m, d) - datetime.date(y, 1, 1)).days + 1
        ms = ((hh * 60 + mm) * 60 + rng.randrange(0, 60)) * 1000 + rng.choice([0, 5, 50, 120, rng.randrange(0, 1000)])
        return {"year": y, "doy": doy, "ms": ms, "us": rng.randrange(0, 1000)}, cls
    if cls == "y2000":
        # the one year divisible by 400 inside the datetime64[ns] range: leap, day 366 exists
        return {"year": 2000, "doy": rng.choice([1, 60, 366, 366]), "ms": rng.randrange(0, 86400000), "us": rng.randrange(0, 1000)}, cls
    year = rng.randrange(2014, 2050)
    leap = calendar.isleap(year)
    if cls == "d366":
        year = rng.choice([y for y in range(2014, 2050) if calendar.isleap(y)])
        leap = True
    ndays = 366 if leap else 365
    doy = {"d1": 1, "d59": 59, "d60": 60, "d365": 365, "d366": 366}.get(cls) or rng.randrange(1, ndays + 1)
    ms = rng.randrange(0, 86400000)
    if cls == "first_ms":
        ms = 0
    if cls == "last_ms":
        ms = 86399999
    if rng.random() < 0.15:
        ms = rng.choice([0, 86399999, 86399000, 1])
    return {"year": year, "doy": doy, "ms": ms, "us": rng.randrange(0, 1000)}, cls


def ymd(year, doy):
    import datetime

    d = datetime.date(year, 1, 1) + datetime.timedelta(days=doy - 1)
    return d.year, d.month, d.day


# ----------------------------------------------------------------------------
# required (non-nullable) fields: valid defaults so that a minimal product parses

FLAG_TEXTS = ["YES", "NO", "ON", "OFF"]
DESIGNATORS = ["UTM-PROJECTION", "UPS-PROJECTION", "LCC-PROJECTION", "MER-PROJECTION"]


def required_ds(inst=None):
    inst = inst or {"year": 2020, "doy": 60, "ms": 86399999, "us": 0}
    y, m, d = ymd(inst["year"], inst["doy"])
    ms = inst["ms"]
    t = f"{y:04d}{m:02d}{d:02d}{ms // 3600000:02d}{ms // 60000 % 60:02d}{ms // 1000 % 60:02d}{ms % 1000:03d}"
    return {
        "scene_center_time": t,
        "motion_compensation_indicator": "0",
        "base_band_conversion_flag": "YES",
        "range_compression_flag": "NO",
        "echo_tracker_status": "ON",
        "weighting_function_in_azimuth": "1",
        "weighting_function_in_range": "1",
        "clutter_lock_applied_flag": "YES",
        "auto_focusing_applied_flag": "NO",
    }


def required_pp(inst=None):
    inst = inst or {"year": 2020, "doy": 60, "ms": 86399999, "us": 0}
    y, m, d = ymd(inst["year"], inst["doy"])
    sec = f"{inst['ms'] // 1000}.{inst['ms'] % 1000:03d}{inst.get('us', 0):03d}"
    return {
        "orbital_elements_designator": "2",
        "datetime_of_first_point.date": f"{y:4d} {m:2d} {d:2d}",
        "datetime_of_first_point.day_of_year": str(inst["doy"]),
        "datetime_of_first_point.seconds_of_day": sec,
        "occurrence_flag_of_a_leap_second": "0",
    }


def att_point(doy=60, ms=0):
    return {
        "time.day_of_year": str(doy), "time.millisecond_of_day": str(ms),
        "attitude.pitch_error": "0", "attitude.roll_error": "0", "attitude.yaw_error": "0",
        "rates.pitch_error": "0", "rates.roll_error": "0", "rates.yaw_error": "0",
    }


def minimal_leader(n_mp=1, n_att=3, att_len=16384, n_ch=2, fac_lens=(100, 200, 300, 400),
                   designator="UTM-PROJECTION", inst=None):
    return {
        "led_fd": {},
        "ds": required_ds(inst),
        "mp": [{"map_projection_designator": designator} for _ in range(n_mp)],
        "pp": required_pp(inst),
        "att": {"length": att_len, "points": [att_point(ms=1000 * i) for i in range(n_att)]},
        "rad": {},
        "dq": {"head": {}, "cal": [{} for _ in range(n_ch)], "geo": {}, "mis": [{} for _ in range(n_ch)]},
        "fac": [{"length": L} for L in fac_lens],
        "f5": {"calibration_mode_data_location_flag": "0", "prf_switching_flag": "0"},
    }


def minimal_volume(n_fp=3, creation="2020022923595999"):
    return {
        "vd": {"logical_volume_creation_datetime": creation,
               "number_of_text_records_in_volume_directory": "1"},
        "fps": [{} for _ in range(n_fp)],
        "txt": {},
    }


def line_prefix(rec, i, inst=None, pixels=0):
    inst = inst or {"year": 2020, "doy": 60, "ms": 86399000}
    p = {
        "sar_image_data_line_number": i + 1,
        "sar_image_data_record_index": 1,
        "actual_count_of_data_pixels": pixels,
        "sensor_acquisition_date": [inst["year"], inst["doy"], inst["ms"]],
        "sar_channel_id": 1, "sar_channel_code": 0,
        "transmitted_pulse_polarization": 0, "received_pulse_polarization": 0,
    }
    if rec == "sig":
        p.update({"chirp_type_designator": 0, "platform_position_parameters_update_flag": 0,
                  "sensor_acquisition_date_microseconds": inst["ms"] * 1000})
    return p


def sample_rows(rng_np, typ, lines, pixels, pattern="random"):
    """-> list of big-endian row bytes"""
    import numpy as np

    if typ == "IU2":
        if pattern == "zeros":
            a = np.zeros((lines, pixels), ">u2")
        elif pattern == "ones":
            a = np.full((lines, pixels), 65535, ">u2")
        elif pattern == "edges":
            a = rng_np.choice(np.array([0, 1, 255, 256, 32767, 32768, 65534, 65535], ">u2"), (lines, pixels))
        elif pattern == "index":
            a = (np.arange(lines * pixels).reshape(lines, pixels) % 65536).astype(">u2")
        else:
            a = rng_np.integers(0, 65536, (lines, pixels)).astype(">u2")
        return [a[i].tobytes() for i in range(lines)]
    # C*8: generate raw 32-bit patterns so NaN payloads, infs, -0.0 and denormals all occur
    n = lines * pixels * 2
    if pattern == "zeros":
        bits = np.zeros(n, ">u4")
    elif pattern == "ones":
        bits = np.full(n, 0xFFFFFFFF, ">u4")
    elif pattern == "edges":
        special = np.array([0x00000000, 0x80000000, 0x7F800000, 0xFF800000, 0x7FC00000, 0x7FC00001,
                            0xFFC12345, 0x7F800001, 0x00000001, 0x807FFFFF, 0x3F800000, 0xBF800000,
                            0x7F7FFFFF, 0x00800000], ">u4")
        bits = rng_np.choice(special, n)
    elif pattern == "index":
        bits = np.arange(n).astype(">f4").view(">u4")
    elif pattern == "finite":
        bits = rng_np.standard_normal(n).astype(">f4").view(">u4")
    else:
        bits = rng_np.integers(0, 2 ** 32, n, dtype=np.uint64).astype(">u4")
    a = bits.reshape(lines, pixels * 2)
    return [a[i].tobytes() for i in range(lines)]


def minimal_image(rng_np, typ="IU2", lines=7, pixels=5, pattern="random", inst=None):
    rec = synth.REC[typ][0]
    return {
        "type": typ, "lines": lines, "pixels": pixels,
        "fd": {"sar_related_data_in_the_record.interleaving_id": "BSQ"},
        "prefix": [line_prefix(rec, i, inst, pixels) for i in range(lines)],
        "rows": sample_rows(rng_np, typ, lines, pixels, pattern),
    }


LEVELS = {"1.1": ("L11", "C*8", "__"), "1.5": ("L15", "IU2", "GU"), "3.1": ("L31", "IU2", "GU")}


def product_names(level="1.5", mode="WBD", look="R", orbit="D", scene="ALOS2014410750-140829",
                  pols=("HH",), scans=(None,), optproj=None):
    tag, typ, op = LEVELS[level]
    pid = f"{mode}{look}{level}{optproj or op}{orbit}"
    imgs = []
    for p in pols:
        for s in scans:
            imgs.append(f"IMG-{p}-{scene}-{pid}" + (f"-{s}" if s else ""))
    return {
        "pid": pid, "scene": scene, "tag": tag, "type": typ,
        "vol": f"VOL-{scene}-{pid}", "led": f"LED-{scene}-{pid}", "trl": f"TRL-{scene}-{pid}", "imgs": imgs,
    }


def simple_product(seed=0, level="1.5", pols=("HH",), scans=(None,), lines=7, pixels=5, pattern="random",
                   leader=None, volume=None, n_mp=1):
    """-> (files: {name: bytes}, info)"""
    import numpy as np

    names = product_names(level, pols=pols, scans=scans)
    files = {}
    models = {}
    for k, n in enumerate(names["imgs"]):
        rng_np = np.random.default_rng([seed, k])
        im = minimal_image(rng_np, names["type"], lines, pixels, pattern)
        models[n] = im
        files[n] = synth.image_bytes(im)
    files[names["vol"]] = synth.volume_bytes(volume or minimal_volume(len(names["imgs"]) + 2))
    files[names["led"]] = synth.leader_bytes(leader or minimal_leader(n_mp=n_mp))
    files[names["trl"]] = synth.trailer_bytes({})
    order = [names["vol"], names["led"], *names["imgs"], names["trl"]]
    entries = synth.default_summary_entries(order, names["tag"], names["pid"], names["scene"], [(pixels, lines)])
    files["summary.txt"] = synth.summary_text(entries).encode()
    return files, {"names": names, "images": models, "order": order}


# ----------------------------------------------------------------------------
# full random fill: every non-spare field gets an admissible value at once

# fields whose content is constrained by the format (counts, lengths, codes with their own generator, date-times)
CONSTRAINED = {
    ("ds", "scene_center_time"), ("mp", "map_projection_designator"),
    ("pp", "datetime_of_first_point.date"), ("pp", "datetime_of_first_point.seconds_of_day"),
    ("vd", "logical_volume_creation_datetime"), ("vd", "number_of_file_pointer_records"),
    ("led_fd", "map_projection.number_of_records"),
    ("img_fd", "number_of_sar_data_records"), ("img_fd", "sar_data_record_length"),
    ("img_fd", "sar_related_data_in_the_record.number_of_lines_per_dataset"),
    ("img_fd", "sar_related_data_in_the_record.number_of_data_groups_per_line"),
    ("img_fd", "prefix_suffix_data_locators.sar_data_format_type_code"),
    ("att_head", "number_of_points"), ("dq_head", "number_of_channels"),
    ("trl_head", "number_of_low_resolution_images"),
}


def random_value(rng, f, classes=None):
    """-> (value, class name) for one field of the layout"""
    kind = f["kind"]
    w = f["width"]
    if kind == "enum":
        name = rng.choice(sorted(f["enum"]))
        code = f["enum"][name]
        return (code if f["base"].startswith("u") else str(code)), "enum:" + name
    if kind == "A_int":
        t, c = int_text(rng, w)
        return justify(rng, t, w, kind), "int:" + c
    if kind == "A_float":
        t, c = float_text(rng, w)
        return justify(rng, t, w, kind), "float:" + c
    if kind == "A_str":
        t, c = str_text(rng, w)
        return justify(rng, t, w, kind), "str:" + c
    if kind == "A_complex":
        a, _ = float_text(rng, w // 2)
        b, _ = float_text(rng, w // 2)
        return [a, b], "complex"
    if kind in ("u8", "u16", "u32", "u64"):
        bits = int(kind[1:])
        c = rng.choice(["zero", "max", "rand", "rand", "small", "msb"])
        v = {"zero": 0, "max": 2 ** bits - 1, "small": rng.randrange(0, 1000) % (2 ** bits),
             "msb": 2 ** (bits - 1) + rng.randrange(0, 2 ** (bits - 1))}.get(c)
        if v is None:
            v = rng.randrange(0, 2 ** bits)
        return v, f"{kind}:{c}"
    if kind == "flag":
        v = rng.choice([0, 1, 1, 2 ** (8 * w) - 1, 256 % (2 ** (8 * w))])
        return v, "flag:" + ("0" if v == 0 else "nz")
    if kind == "bytes":
        return bytes(rng.randrange(1, 256) for _ in range(rng.randrange(0, w + 1))).hex(), "bytes"
    if kind == "ydms":
        inst, c = rand_instant(rng)
        return [inst["year"], inst["doy"], inst["ms"]], "ydms:" + c
    if kind == "ydus":
        return rng.randrange(0, 86400 * 10 ** 6), "ydus"
    raise ValueError(kind)


PADDING_NAMES = ("reserved", "local_use_segment", "system_reserve")


def is_padding(f):
    """spare / blank / reserved areas of a record (content must never influence the result)"""
    last = f["name"].split(".")[-1].split("~")[0]
    return synth.is_spare(f) or last.startswith(PADDING_NAMES)


def fill_record(rng, rec, values=None, classes=None, skip_prefix=("preamble.",), spare=False):
    """random admissible content for every field not yet set.

    spare: False -> padding areas stay blank; a random.Random -> they are filled from *that* generator (so the
    same main seed gives the same product with different padding); True -> filled from the main generator"""
    values = dict(values or {})
    for f in synth.fields(rec):
        n = f["name"]
        if n in values or (rec, n) in CONSTRAINED or n.startswith(tuple(skip_prefix)):
            continue
        if is_padding(f):
            if not spare:
                continue
            r2 = rng if spare is True else spare
            v, c = random_value(r2, f)
            values[n] = v
            continue
        v, c = random_value(rng, f)
        values[n] = v
        if classes is not None:
            classes[c] = classes.get(c, 0) + 1
    return values


def instant_texts(inst):
    y, m, d = ymd(inst["year"], inst["doy"])
    ms = inst["ms"]
    hh, mm, ss, mmm = ms // 3600000, ms // 60000 % 60, ms // 1000 % 60, ms % 1000
    return {
        "scene_center_time_ms": f"{y:04d}{m:02d}{d:02d}{hh:02d}{mm:02d}{ss:02d}{mmm:03d}",
        "scene_center_time_us": f"{y:04d}{m:02d}{d:02d}{hh:02d}{mm:02d}{ss:02d}{mmm:03d}{inst.get('us', 0):03d}",
        "pp_date": f"{y:4d} {m:2d} {d:2d}",
        "pp_seconds": f"{ms // 1000}.{mmm:03d}{inst.get('us', 0):03d}",
        "vol_creation": f"{y:04d}{m:02d}{d:02d}{hh:02d}{mm:02d}{ss:02d}{mmm // 10:02d}",
    }


def full_leader(rng, n_mp=None, n_att=None, att_len=None, n_ch=None, fac_lens=None, designator=None, inst=None,
                classes=None, spare=False):
    n_mp = rng.choice([0, 1, 1]) if n_mp is None else n_mp
    att_len = att_len or rng.choice([16384, 16384, 16 + 120 * rng.randrange(1, 140), 8192])
    max_pts = (att_len - 16) // 120
    n_att = n_att if n_att is not None else rng.choice([1, 2, 3, rng.randrange(1, max_pts + 1), max_pts])
    n_att = max(1, min(n_att, max_pts))
    n_ch = n_ch if n_ch is not None else rng.choice([1, 2, 4, 8, 16, rng.randrange(1, 17)])
    fac_lens = fac_lens or [rng.choice([66, 67, 100, 325000 % 4000 + 66, rng.randrange(66, 4300)]) for _ in range(4)]
    designator = designator or rng.choice(DESIGNATORS)
    inst = inst or rand_instant(rng)[0]
    tx = instant_texts(inst)
    ds = fill_record(rng, "ds", {"scene_center_time": rng.choice([tx["scene_center_time_ms"], tx["scene_center_time_us"]])},
                     classes, spare=spare)
    mps = [fill_record(rng, "mp", {"map_projection_designator": designator}, classes, spare=spare) for _ in range(n_mp)]
    pp = fill_record(rng, "pp", {"datetime_of_first_point.date": tx["pp_date"],
                                 "datetime_of_first_point.seconds_of_day": tx["pp_seconds"]}, classes, spare=spare)
    pts = []
    for k in range(n_att):
        pi, _ = rand_instant(rng)
        p = fill_record(rng, "att_pt", {"time.day_of_year": str(pi["doy"]), "time.millisecond_of_day": str(pi["ms"])}, classes)
        pts.append(p)
    m = {
        "led_fd": fill_record(rng, "led_fd", {"map_projection.number_of_records": str(n_mp)}, classes, spare=spare),
        "ds": ds, "mp": mps, "pp": pp,
        "att": {"length": att_len, "points": pts},
        "rad": fill_record(rng, "rad", {}, classes, spare=spare),
        "dq": {"head": fill_record(rng, "dq_head", {}, classes),
               "cal": [fill_record(rng, "dq_cal", {}, classes) for _ in range(n_ch)],
               "geo": fill_record(rng, "dq_geo", {}, classes),
               "mis": [fill_record(rng, "dq_mis", {}, classes) for _ in range(n_ch)]},
        "fac": [{"length": L, "raw": "".join(rng.choice(INNER) for _ in range(L - 66))} for L in fac_lens],
        "f5": fill_record(rng, "f5", {}, classes, spare=spare),
    }
    if spare and spare is not True:
        junk = lambda k: "".join(spare.choice(INNER) for _ in range(k))
        m["att"]["tail"] = junk(att_len - 16 - 120 * n_att)
        m["dq"]["blanks1"] = junk(512 - 32 * n_ch)
        m["dq"]["blanks2"] = junk(534 + (8 - n_ch) * 32)
        for fac in m["fac"]:
            fac["blanks"] = junk(50).strip() or "x"
    m["dq"]["head"].pop("number_of_channels", None)
    return m, {"n_mp": n_mp, "n_att": n_att, "att_len": att_len, "n_ch": n_ch, "fac_lens": list(fac_lens),
               "designator": designator, "inst": inst}


def full_volume(rng, n_fp=None, inst=None, classes=None, spare=False):
    n_fp = rng.choice([0, 1, 3, 5, rng.randrange(0, 17)]) if n_fp is None else n_fp
    inst = inst or rand_instant(rng)[0]
    tx = instant_texts(inst)
    return {
        "vd": fill_record(rng, "vd", {"logical_volume_creation_datetime": tx["vol_creation"],
                                      "number_of_file_pointer_records": str(n_fp)}, classes, spare=spare),
        "fps": [fill_record(rng, "fp", {}, classes, spare=spare) for _ in range(n_fp)],
        "txt": fill_record(rng, "txt", {}, classes, spare=spare),
    }, {"n_fp": n_fp, "inst": inst}


PER_FILE_CONSTANTS = {
    "sar_image_data_record_index", "sensor_parameters_update_flag", "scan_id", "sar_channel_code", "sar_channel_id",
    "onboard_range_compressed_flag", "chirp_type_designator", "platform_position_parameters_update_flag",
    "alos2_frame_number", "geographic_reference_parameter_update_flag", "transmitted_pulse_polarization",
    "received_pulse_polarization",
}


def full_image(rng, rng_np, typ, lines, pixels, pattern="random", classes=None, optional_header=None, spare=False, near_constant=None):
    rec = synth.REC[typ][0]
    const = {}
    for f in synth.fields(rec):
        if f["name"] in PER_FILE_CONSTANTS:
            const[f["name"]], c = random_value(rng, f)
    prefix = []
    for i in range(lines):
        p = dict(const)
        inst, _ = rand_instant(rng)
        p["sensor_acquisition_date"] = [inst["year"], inst["doy"], inst["ms"]]
        if rec == "sig":
            p["sensor_acquisition_date_microseconds"] = inst["ms"] * 1000 + inst["us"]
        prefix.append(fill_record(rng, rec, p, classes, spare=spare))
    if lines > 1 and (near_constant or (near_constant is None and rng.random() < 0.3)):
        # some per-line columns hardly vary over an image (slant range, PRF, latitudes ...): constant, or drifting by one
        # unit in the last place from line to line
        numeric = [f for f in synth.fields(rec) if synth.base_kind(f) in ("u32", "u16", "u64") and f["kind"] not in ("enum", "flag")
                   and f["name"] not in PER_FILE_CONSTANTS and not is_padding(f) and not f["name"].startswith(("preamble.", "sensor_acquisition", "sar_image_data_line_number", "actual_count"))]
        for f in rng.sample(numeric, min(len(numeric), rng.randrange(1, 6))):
            bits = int(synth.base_kind(f)[1:])
            base = rng.choice([rng.randrange(2 ** (bits - 2), 2 ** (bits - 1)), rng.randrange(10 ** 6, 10 ** 9) % 2 ** bits])
            drift = rng.choice([0, 1, 1, 3])
            for k, pre in enumerate(prefix):
                pre[f["name"]] = min(2 ** bits - 1, base + k * drift)
    fd = fill_record(rng, "img_fd", {}, classes, spare=spare)
    opt = ["prefix_suffix_data_locators.maximum_data_range_of_pixel", "prefix_suffix_data_locators.number_of_burst_data",
           "prefix_suffix_data_locators.number_of_lines_per_burst",
           "scansar_burst_data_information.number_of_overlap_lines_with_adjacent_bursts"]
    mask = optional_header if optional_header is not None else rng.randrange(0, 16)
    for b, name in enumerate(opt):
        if not (mask >> b) & 1:
            fd[name] = None
        else:
            w = synth.field("img_fd", name)["width"]
            fd[name] = rng.choice(["0", "0", "0" * w, str(rng.randrange(0, 10 ** w)), str(rng.randrange(0, 10 ** w)), "9" * w])
    for k in list(fd):
        if ("img_fd", k) in CONSTRAINED:
            del fd[k]
    return {"type": typ, "lines": lines, "pixels": pixels, "fd": fd, "prefix": prefix,
            "rows": sample_rows(rng_np, typ, lines, pixels, pattern)}, {"optional_header_mask": mask}


POLS = ["HH", "HV", "VH", "VV"]


def rich_product(rng, np_seed, level=None, n_images=None, scans=None, geoms=None, max_lines=12, max_pixels=8,
                 pattern=None, classes=None, leader_kw=None, summary_order=None, newline="\n", spare=False,
                 mode=None, optproj=None, image_order=None, pols=None, scene=None, near_constant=None):
    """a product in which every record carries random admissible content.

    -> (files, info) ; info has names, order, per-image models (type/lines/pixels), leader/volume parameters
    """
    import numpy as np

    level = level or rng.choice(["1.1", "1.5", "3.1"])
    tag, typ, _ = LEVELS[level]
    if scans is None:
        scans = [None] if rng.random() < 0.6 else [f"{rng.choice('BF')}{k}" for k in sorted(rng.sample(range(1, 8), rng.randrange(1, 4)))]
    n_pols = n_images or rng.choice([1, 1, 2, 2, 4])
    pols_ = POLS[:n_pols] if rng.random() < 0.5 else sorted(rng.sample(POLS, n_pols), key=POLS.index)
    pols = list(pols) if pols else pols_
    if len(pols) * len(scans) > 8:
        pols = pols[: max(1, 8 // len(scans))]
    if scene is None and rng.random() < 0.5:
        scene = rand_scene(rng)
    names = product_names(level, mode=mode or ("WBD" if scans != [None] else "FBD"), pols=pols, scans=scans, optproj=optproj,
                          **({"scene": scene} if scene else {}))
    if image_order == "scan-major":
        names["imgs"].sort(key=lambda n: (n.rsplit("-", 1)[-1], n))
    elif image_order == "reversed":
        names["imgs"].reverse()
    elif image_order == "random":
        rng.shuffle(names["imgs"])
    files, images = {}, {}
    for k, n in enumerate(names["imgs"]):
        lines, pixels = geoms[k] if geoms else (rng.randrange(1, max_lines + 1), rng.randrange(1, max_pixels + 1))
        im, iminfo = full_image(rng, np.random.default_rng([*(np_seed if isinstance(np_seed, (list, tuple)) else [np_seed]), k]), typ, lines, pixels,
                                pattern or rng.choice(["random", "edges", "index"]), classes, spare=spare, near_constant=near_constant)
        files[n] = synth.image_bytes(im)
        images[n] = {"type": typ, "lines": lines, "pixels": pixels, **iminfo}
    led, ledinfo = full_leader(rng, classes=classes, spare=spare, **(leader_kw or {}))
    files[names["led"]] = synth.leader_bytes(led)
    vol, volinfo = full_volume(rng, classes=classes, spare=spare)
    files[names["vol"]] = synth.volume_bytes(vol)
    files[names["trl"]] = synth.trailer_bytes({})
    order = [names["vol"], names["led"], *names["imgs"], names["trl"]]
    entries = synth.default_summary_entries(order, tag, names["pid"], names["scene"],
                                            [(images[n]["pixels"], images[n]["lines"]) for n in names["imgs"][:1]])
    if summary_order == "shuffle":
        rng.shuffle(entries)
    files["summary.txt"] = synth.summary_text(entries, newline).encode()
    return files, {"names": names, "order": order, "images": images, "leader": ledinfo, "volume": volinfo, "level": level}


def rand_scene(rng):
    """a scene id with a random orbit / frame and an acquisition date incl. leap days, month ends and the year's ends"""
    import calendar as cal

    y = rng.randrange(2014, 2050)
    cls = rng.choice(["leap-day", "leap-day", "rand", "rand", "new-year", "year-end", "month-end"])
    if cls == "leap-day":
        y = rng.choice([yy for yy in range(2014, 2050) if cal.isleap(yy)])
        m, d = 2, 29
    elif cls == "new-year":
        m, d = 1, 1
    elif cls == "year-end":
        m, d = 12, 31
    else:
        m = rng.randrange(1, 13)
        d = cal.monthrange(y, m)[1] if cls == "month-end" else rng.randrange(1, cal.monthrange(y, m)[1] + 1)
    return f"ALOS2{rng.randrange(0, 10 ** 5):05d}{rng.randrange(0, 10 ** 4):04d}-{y % 100:02d}{m:02d}{d:02d}"
