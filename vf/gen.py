"""Seeded generators of product models (value classes are named so evidence can count them).

Everything here produces *text / ints to be written*; what those bytes mean is
decided independently by vf/refdec.py from the bytes themselves.
"""
import calendar
import random
import string

from vf import synth

PRINTABLE = "".join(chr(c) for c in range(0x21, 0x7F))  # no blank: used for first/last characters
INNER = PRINTABLE + "   "


# ----------------------------------------------------------------------------
# texts

def float_text(rng, w, cls=None):
    """a valid ASCII float of at most w characters; returns (text, class)"""
    cls = cls or rng.choice(["F", "E", "Efull", "int", "zero", "plus", "tiny", "huge", "lead0", "dot"])
    sign = rng.choice(["", "-"])
    if cls == "zero":
        t = rng.choice(["0", "0.0", "-0.0", "0E+00", "0.000"])
    elif cls == "int":
        t = sign + str(rng.randrange(0, 10 ** min(w - 2, 15)))
    elif cls == "F":
        nd = rng.randrange(1, max(2, w - 3))
        ip = rng.randrange(0, 10 ** rng.randrange(1, max(2, min(6, w - 2 - nd))))
        t = f"{sign}{ip}." + "".join(rng.choice(string.digits) for _ in range(nd))
    elif cls in ("E", "plus", "lead0"):
        nd = rng.randrange(1, max(2, w - 7))
        m = f"{rng.randrange(1, 10)}." + "".join(rng.choice(string.digits) for _ in range(nd))
        e = rng.randrange(-30, 31)
        t = f"{sign}{m}E{e:+03d}"
        if cls == "plus" and not sign and len(t) < w:
            t = "+" + t
        if cls == "lead0" and len(t) < w - 1:
            t = sign + "0" * (w - len(t) - 1) + t[len(sign):]
    elif cls == "Efull":
        # mantissa fills the whole field, so a one byte shift changes the value
        nd = w - len(sign) - 2 - 4
        if nd < 1:
            return float_text(rng, w, "E")
        m = f"{rng.randrange(1, 10)}." + "".join(rng.choice(string.digits) for _ in range(nd))
        t = f"{sign}{m}E{rng.randrange(-9, 10):+03d}"
    elif cls == "tiny":
        t = f"{sign}{rng.randrange(1, 10)}.{rng.randrange(0, 10)}E-{rng.randrange(100, 308)}"
    elif cls == "huge":
        t = f"{sign}{rng.randrange(1, 10)}.{rng.randrange(0, 10)}E+{rng.randrange(100, 308)}"
    elif cls == "dot":
        t = rng.choice([f"{sign}.{rng.randrange(1, 1000)}", f"{sign}{rng.randrange(0, 1000)}."])
    else:
        raise ValueError(cls)
    if len(t) > w:
        return float_text(rng, w, "int" if w < 8 else "E")
    return t, cls


def int_text(rng, w, cls=None, lo=None, hi=None):
    cls = cls or rng.choice(["small", "max", "zero", "neg", "plus", "lead0", "rand"])
    if cls == "zero":
        t = "0"
    elif cls == "max":
        t = "9" * w
    elif cls == "neg" and w >= 2:
        t = "-" + str(rng.randrange(1, 10 ** (w - 1)))
    elif cls == "plus" and w >= 2:
        t = "+" + str(rng.randrange(0, 10 ** (w - 1)))
    elif cls == "lead0" and w >= 2:
        t = str(rng.randrange(0, 10 ** (w - 1))).rjust(w, "0")
    elif cls == "small":
        t = str(rng.randrange(0, 10))
    else:
        t = str(rng.randrange(0, 10 ** w))
        cls = "rand"
    return t, cls


def str_text(rng, w, cls=None):
    """printable ASCII, first and last character non-blank; '' never (that is the blank class)"""
    cls = cls or rng.choice(["full", "short", "one", "inner", "quote"])
    if cls == "one" or w == 1:
        return rng.choice(PRINTABLE), "one"
    if cls == "full":
        n = w
    else:
        n = rng.randrange(2, w + 1)
    mid = "".join(rng.choice(INNER if cls != "short" else PRINTABLE) for _ in range(n - 2))
    if cls == "quote" and n > 3:
        mid = mid[: n - 3] + rng.choice("\"'=")
    return rng.choice(PRINTABLE) + mid + rng.choice(PRINTABLE), cls


def justify(rng, text, w, kind):
    """random admissible placement of text inside the field"""
    if len(text) >= w:
        return text
    r = rng.random()
    if r < 0.4:
        return text  # default justification
    if r < 0.7:
        return ["L", text]
    if r < 0.9:
        return ["R", text]
    pad = w - len(text)
    left = rng.randrange(0, pad + 1)
    return ["raw", " " * left + text + " " * (pad - left)]


# ----------------------------------------------------------------------------
# instants

def rand_instant(rng, cls=None):
    """-> (year, month, day, day_of_year, ms_of_day, us_extra) ; class"""
    cls = cls or rng.choice(["d1", "d59", "d60", "d365", "d366", "rand", "rand", "first_ms", "last_ms"])
    year = rng.randrange(2014, 2050)
    leap = calendar.isleap(year)
    if cls == "d366":
        year = rng.choice([y for y in range(2014, 2050) if calendar.isleap(y)])
        leap = True
    ndays = 366 if leap else 365
    doy = {"d1": 1, "d59": 59, "d60": 60, "d365": 365, "d366": 366}.get(cls) or rng.randrange(1, ndays + 1)
    ms = rng.randrange(0, 86400000)
    if cls == "first_ms":
        ms = 0
    if cls == "last_ms":
        ms = 86399999
    if rng.random() < 0.15:
        ms = rng.choice([0, 86399999, 86399000, 1])
    return {"year": year, "doy": doy, "ms": ms, "us": rng.randrange(0, 1000)}, cls


def ymd(year, doy):
    import datetime

    d = datetime.date(year, 1, 1) + datetime.timedelta(days=doy - 1)
    return d.year, d.month, d.day


# ----------------------------------------------------------------------------
# required (non-nullable) fields: valid defaults so that a minimal product parses

FLAG_TEXTS = ["YES", "NO", "ON", "OFF"]
DESIGNATORS = ["UTM-PROJECTION", "UPS-PROJECTION", "LCC-PROJECTION", "MER-PROJECTION"]


def required_ds(inst=None):
    inst = inst or {"year": 2020, "doy": 60, "ms": 86399999, "us": 0}
    y, m, d = ymd(inst["year"], inst["doy"])
    ms = inst["ms"]
    t = f"{y:04d}{m:02d}{d:02d}{ms // 3600000:02d}{ms // 60000 % 60:02d}{ms // 1000 % 60:02d}{ms % 1000:03d}"
    return {
        "scene_center_time": t,
        "motion_compensation_indicator": "0",
        "base_band_conversion_flag": "YES",
        "range_compression_flag": "NO",
        "echo_tracker_status": "ON",
        "weighting_function_in_azimuth": "1",
        "weighting_function_in_range": "1",
        "clutter_lock_applied_flag": "YES",
        "auto_focusing_applied_flag": "NO",
    }


def required_pp(inst=None):
    inst = inst or {"year": 2020, "doy": 60, "ms": 86399999, "us": 0}
    y, m, d = ymd(inst["year"], inst["doy"])
    sec = f"{inst['ms'] // 1000}.{inst['ms'] % 1000:03d}{inst.get('us', 0):03d}"
    return {
        "orbital_elements_designator": "2",
        "datetime_of_first_point.date": f"{y:4d} {m:2d} {d:2d}",
        "datetime_of_first_point.day_of_year": str(inst["doy"]),
        "datetime_of_first_point.seconds_of_day": sec,
        "occurrence_flag_of_a_leap_second": "0",
    }


def att_point(doy=60, ms=0):
    return {
        "time.day_of_year": str(doy), "time.millisecond_of_day": str(ms),
        "attitude.pitch_error": "0", "attitude.roll_error": "0", "attitude.yaw_error": "0",
        "rates.pitch_error": "0", "rates.roll_error": "0", "rates.yaw_error": "0",
    }


def minimal_leader(n_mp=1, n_att=3, att_len=16384, n_ch=2, fac_lens=(100, 200, 300, 400),
                   designator="UTM-PROJECTION", inst=None):
    return {
        "led_fd": {},
        "ds": required_ds(inst),
        "mp": [{"map_projection_designator": designator} for _ in range(n_mp)],
        "pp": required_pp(inst),
        "att": {"length": att_len, "points": [att_point(ms=1000 * i) for i in range(n_att)]},
        "rad": {},
        "dq": {"head": {}, "cal": [{} for _ in range(n_ch)], "geo": {}, "mis": [{} for _ in range(n_ch)]},
        "fac": [{"length": L} for L in fac_lens],
        "f5": {"calibration_mode_data_location_flag": "0", "prf_switching_flag": "0"},
    }


def minimal_volume(n_fp=3, creation="2020022923595999"):
    return {
        "vd": {"logical_volume_creation_datetime": creation,
               "number_of_text_records_in_volume_directory": "1"},
        "fps": [{} for _ in range(n_fp)],
        "txt": {},
    }


def line_prefix(rec, i, inst=None, pixels=0):
    inst = inst or {"year": 2020, "doy": 60, "ms": 86399000}
    p = {
        "sar_image_data_line_number": i + 1,
        "sar_image_data_record_index": 1,
        "actual_count_of_data_pixels": pixels,
        "sensor_acquisition_date": [inst["year"], inst["doy"], inst["ms"]],
        "sar_channel_id": 1, "sar_channel_code": 0,
        "transmitted_pulse_polarization": 0, "received_pulse_polarization": 0,
    }
    if rec == "sig":
        p.update({"chirp_type_designator": 0, "platform_position_parameters_update_flag": 0,
                  "sensor_acquisition_date_microseconds": inst["ms"] * 1000})
    return p


def sample_rows(rng_np, typ, lines, pixels, pattern="random"):
    """-> list of big-endian row bytes"""
    import numpy as np

    if typ == "IU2":
        if pattern == "zeros":
            a = np.zeros((lines, pixels), ">u2")
        elif pattern == "ones":
            a = np.full((lines, pixels), 65535, ">u2")
        elif pattern == "edges":
            a = rng_np.choice(np.array([0, 1, 255, 256, 32767, 32768, 65534, 65535], ">u2"), (lines, pixels))
        elif pattern == "index":
            a = (np.arange(lines * pixels).reshape(lines, pixels) % 65536).astype(">u2")
        else:
            a = rng_np.integers(0, 65536, (lines, pixels)).astype(">u2")
        return [a[i].tobytes() for i in range(lines)]
    # C*8: generate raw 32-bit patterns so NaN payloads, infs, -0.0 and denormals all occur
    n = lines * pixels * 2
    if pattern == "zeros":
        bits = np.zeros(n, ">u4")
    elif pattern == "ones":
        bits = np.full(n, 0xFFFFFFFF, ">u4")
    elif pattern == "edges":
        special = np.array([0x00000000, 0x80000000, 0x7F800000, 0xFF800000, 0x7FC00000, 0x7FC00001,
                            0xFFC12345, 0x7F800001, 0x00000001, 0x807FFFFF, 0x3F800000, 0xBF800000,
                            0x7F7FFFFF, 0x00800000], ">u4")
        bits = rng_np.choice(special, n)
    elif pattern == "index":
        bits = np.arange(n).astype(">f4").view(">u4")
    elif pattern == "finite":
        bits = rng_np.standard_normal(n).astype(">f4").view(">u4")
    else:
        bits = rng_np.integers(0, 2 ** 32, n, dtype=np.uint64).astype(">u4")
    a = bits.reshape(lines, pixels * 2)
    return [a[i].tobytes() for i in range(lines)]


def minimal_image(rng_np, typ="IU2", lines=7, pixels=5, pattern="random", inst=None):
    rec = synth.REC[typ][0]
    return {
        "type": typ, "lines": lines, "pixels": pixels,
        "fd": {"sar_related_data_in_the_record.interleaving_id": "BSQ"},
        "prefix": [line_prefix(rec, i, inst, pixels) for i in range(lines)],
        "rows": sample_rows(rng_np, typ, lines, pixels, pattern),
    }


LEVELS = {"1.1": ("L11", "C*8", "__"), "1.5": ("L15", "IU2", "GU"), "3.1": ("L31", "IU2", "GU")}


def product_names(level="1.5", mode="WBD", look="R", orbit="D", scene="ALOS2014410750-140829",
                  pols=("HH",), scans=(None,), optproj=None):
    tag, typ, op = LEVELS[level]
    pid = f"{mode}{look}{level}{optproj or op}{orbit}"
    imgs = []
    for p in pols:
        for s in scans:
            imgs.append(f"IMG-{p}-{scene}-{pid}" + (f"-{s}" if s else ""))
    return {
        "pid": pid, "scene": scene, "tag": tag, "type": typ,
        "vol": f"VOL-{scene}-{pid}", "led": f"LED-{scene}-{pid}", "trl": f"TRL-{scene}-{pid}", "imgs": imgs,
    }


def simple_product(seed=0, level="1.5", pols=("HH",), scans=(None,), lines=7, pixels=5, pattern="random",
                   leader=None, volume=None, n_mp=1):
    """-> (files: {name: bytes}, info)"""
    import numpy as np

    names = product_names(level, pols=pols, scans=scans)
    files = {}
    models = {}
    for k, n in enumerate(names["imgs"]):
        rng_np = np.random.default_rng([seed, k])
        im = minimal_image(rng_np, names["type"], lines, pixels, pattern)
        models[n] = im
        files[n] = synth.image_bytes(im)
    files[names["vol"]] = synth.volume_bytes(volume or minimal_volume(len(names["imgs"]) + 2))
    files[names["led"]] = synth.leader_bytes(leader or minimal_leader(n_mp=n_mp))
    files[names["trl"]] = synth.trailer_bytes({})
    order = [names["vol"], names["led"], *names["imgs"], names["trl"]]
    entries = synth.default_summary_entries(order, names["tag"], names["pid"], names["scene"], [(pixels, lines)])
    files["summary.txt"] = synth.summary_text(entries).encode()
    return files, {"names": names, "images": models, "order": order}
