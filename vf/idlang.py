"""The documented identifier language (frozen code tables + hand-written recognisers/decoders, no regex shared with the code)."""
import datetime

OBSERVATION_MODES = {
    "SBS": "spotlight mode", "UBS": "ultra-fine mode single polarization", "UBD": "ultra-fine mode dual polarization",
    "HBS": "high-sensitive mode single polarization", "HBD": "high-sensitive mode dual polarization",
    "HBQ": "high-sensitive mode full (quad.) polarimetry", "FBS": "fine mode single polarization",
    "FBD": "fine mode dual polarization", "FBQ": "fine mode full (quad.) polarimetry",
    "WBS": "ScanSAR nominal 14MHz mode single polarization", "WBD": "ScanSAR nominal 14MHz mode dual polarization",
    "WWS": "ScanSAR nominal 28MHz mode single polarization", "WWD": "ScanSAR nominal 28MHz mode dual polarization",
    "VBS": "ScanSAR wide mode single polarization", "VBD": "ScanSAR wide mode dual polarization",
}
DIRECTIONS = {"L": "left looking", "R": "right looking"}
LEVELS = {"1.0": "level 1.0", "1.1": "level 1.1", "1.5": "level 1.5", "3.1": "level 3.1"}
OPTIONS = {"G": "geo-code", "R": "geo-reference", "_": "not specified"}
PROJECTIONS = {"U": "UTM", "P": "PS", "M": "MER", "L": "LCC", "_": "not specified"}
ORBITS = {"A": "ascending", "D": "descending"}
METHODS = {"F": "full aperture_method", "B": "SPECAN method"}
RESAMPLING = {"NN": "nearest-neighbor", "BL": "bilinear", "CC": "cubic convolution"}
FACILITIES = {"SCMO": "spacecraft control mission operation system", "EICS": "earth intelligence collection and sharing system"}
POLARIZATIONS = ["HH", "HV", "VH", "VV"]
FILETYPES = ["VOL", "LED", "IMG", "TRL"]
DIGITS = "0123456789"
UPPER = "ABCDEFGHIJKLMNOPQRSTUVWXYZ"


def all_product_ids():
    for m in OBSERVATION_MODES:
        for d in DIRECTIONS:
            for lv in LEVELS:
                for o in OPTIONS:
                    for p in PROJECTIONS:
                        for ob in ORBITS:
                            yield f"{m}{d}{lv}{o}{p}{ob}"


def decode_product_id(s):
    """-> dict | None (not in the language)"""
    if len(s) != 10:
        return None
    m, d, lv, o, p, ob = s[0:3], s[3], s[4:7], s[7], s[8], s[9]
    if m not in OBSERVATION_MODES or d not in DIRECTIONS or lv not in LEVELS or o not in OPTIONS or p not in PROJECTIONS or ob not in ORBITS:
        return None
    return {"observation_mode": OBSERVATION_MODES[m], "observation_direction": DIRECTIONS[d], "processing_level": LEVELS[lv],
            "processing_option": OPTIONS[o], "map_projection": PROJECTIONS[p], "orbit_direction": ORBITS[ob]}


def valid_date6(s):
    """yymmdd with a two-digit year resolved to 1976..2075 (dateutil's window around 2026); -> date | None"""
    if len(s) != 6 or any(c not in DIGITS for c in s):
        return None
    yy, mm, dd = int(s[:2]), int(s[2:4]), int(s[4:])
    year = 2000 + yy if yy <= 75 else 1900 + yy
    try:
        return datetime.date(year, mm, dd)
    except ValueError:
        return None


def decode_scene_id(s):
    """mission(5: A-Z0-9) orbit(5 digits) frame(4 digits) '-' yymmdd"""
    if len(s) != 21 or s[14] != "-":
        return None
    mission, orbit, frame, date = s[:5], s[5:10], s[10:14], s[15:]
    if any(c not in UPPER + DIGITS for c in mission) or any(c not in DIGITS for c in orbit + frame):
        return None
    d = valid_date6(date)
    if d is None:
        return None
    return {"mission_name": mission, "orbit_accumulation": orbit, "scene_frame": frame, "date": d}


def decode_scan(s):
    if len(s) != 2 or s[0] not in METHODS or s[1] not in DIGITS:
        return None
    return {"processing_method": METHODS[s[0]], "scan_number": s[1]}


def decode_filename(s):
    """TYPE[-POL]-SCENEID-PRODUCTID[-SCAN] ; -> dict | None"""
    parts = s.split("-")
    # scene id contains one '-', so: TYPE [POL] SCENE_A SCENE_B PRODUCT [SCAN]
    if len(parts) < 4 or parts[0] not in FILETYPES:
        # file type is any three capital letters in the grammar; the documented ones are the four above
        if len(parts) < 4 or len(parts[0]) != 3 or any(c not in UPPER for c in parts[0]):
            return None
    out = {"filetype": parts[0]}
    i = 1
    if len(parts[i]) == 2 and all(c in "HV" for c in parts[i]):
        out["polarization"] = parts[i]
        i += 1
    if len(parts) < i + 3:
        return None
    scene = decode_scene_id(parts[i] + "-" + parts[i + 1])
    pid = decode_product_id(parts[i + 2])
    if scene is None or pid is None:
        return None
    out.update(scene)
    out.update(pid)
    rest = parts[i + 3:]
    if len(rest) > 1:
        return None
    if rest:
        sc = decode_scan(rest[0])
        if sc is None:
            return None
        out.update(sc)
    return out
