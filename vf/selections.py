"""Index-expression generators shared by C02 / C11 / C12 / C19.

An indexer is JSON-able: ["int", v] | ["slice", a, b, s] | ["list", [...]] | ["mask", [...]] | ["arr", [...]]
A selection is {"mode": "isel"|"getitem"|"sel"|"vec", "rows": indexer, "columns": indexer}
"""
import itertools

import numpy as np


def to_py(ix):
    k = ix[0]
    if k == "int":
        return ix[1]
    if k == "slice":
        return slice(ix[1], ix[2], ix[3])
    if k == "list":
        return list(ix[1])
    if k == "mask":
        return np.array(ix[1], dtype=bool)
    if k == "arr":
        return np.array(ix[1], dtype=np.int64)
    if k == "all":
        return slice(None)
    raise ValueError(k)


def all_ints(n):
    return [["int", v] for v in range(-n, n)]


def all_slices(n):
    vals = [None] + list(range(-n - 1, n + 2))
    steps = [None] + [s for s in range(-n - 1, n + 2) if s != 0]
    return [["slice", a, b, s] for a in vals for b in vals for s in steps]


def all_masks(n):
    return [["mask", list(m)] for m in itertools.product([False, True], repeat=n)]


def small_arrays(n, maxlen=2):
    out = []
    for k in range(0, maxlen + 1):
        for c in itertools.product(range(-n, n), repeat=k):
            out.append(["list" if (len(out) % 2) else "arr", list(c)])
    return out


def exhaustive_axis(n, maxlen=2):
    return all_ints(n) + all_slices(n) + all_masks(n) + small_arrays(n, maxlen)


def basis(n):
    """a small spanning set of indexers for the *other* axis"""
    b = [["all"], ["int", 0], ["int", -1], ["slice", None, None, -1], ["list", [0]], ["slice", 0, 0, None]]
    if n > 1:
        b += [["slice", 1, None, 2], ["arr", [n - 1, 0]], ["mask", [i % 2 == 0 for i in range(n)]]]
    return b


def random_indexer(rng, n, allow_oob=True):
    r = rng.random()
    if r < 0.2:
        lo, hi = (-n - 1, n + 1) if allow_oob and rng.random() < 0.1 else (-n, n)
        return ["int", rng.randrange(lo, hi)]
    if r < 0.55:
        def b():
            return None if rng.random() < 0.3 else rng.randrange(-n - 2, n + 3)
        s = None if rng.random() < 0.3 else rng.choice([1, 2, 3, 7, -1, -2, -3, n, -n, n + 1])
        return ["slice", b(), b(), s or None]
    if r < 0.75:
        k = rng.choice([0, 1, 2, 3, 5, min(n, 17)])
        return [rng.choice(["list", "arr"]), [rng.randrange(-n, n) for _ in range(k)]]
    if r < 0.9:
        p = rng.choice([0.0, 0.1, 0.5, 0.9, 1.0])
        return ["mask", [rng.random() < p for _ in range(n)]]
    # sorted / duplicate-heavy arrays
    k = rng.randrange(1, 6)
    base = sorted(rng.randrange(0, n) for _ in range(k))
    return ["arr", base + base[:2]]


def random_selection(rng, lines, pixels):
    r = rng.random()
    if r < 0.12:
        k = rng.randrange(0, 6)
        return {"mode": "vec", "rows": ["arr", [rng.randrange(-lines, lines) for _ in range(k)]],
                "columns": ["arr", [rng.randrange(-pixels, pixels) for _ in range(k)]]}
    mode = "isel" if r < 0.7 else ("getitem" if r < 0.9 else "sel")
    rows = random_indexer(rng, lines)
    cols = random_indexer(rng, pixels) if rng.random() < 0.7 else ["all"]
    if mode == "sel":
        rows = random_indexer(rng, lines, allow_oob=False)
        if rows[0] == "mask":
            rows = ["all"]
    return {"mode": mode, "rows": rows, "columns": cols}


def apply(da, sel):
    """apply a selection to a DataArray (lazy, twin or control alike)"""
    import xarray as xr

    mode = sel["mode"]
    r, c = to_py(sel["rows"]), to_py(sel["columns"])
    if mode == "isel":
        return da.isel(rows=r, columns=c)
    if mode == "getitem":
        return da[r, c]
    if mode == "vec":
        return da.isel(rows=xr.DataArray(r, dims="z"), columns=xr.DataArray(c, dims="z"))
    if mode == "sel":
        # translate the positional row indexer into coordinate labels, then select by label
        labels = da["rows"].values
        if isinstance(r, slice):
            idx = range(len(labels))[r]
            if len(idx) == 0 or (r.step not in (None, 1)):
                lab = labels[list(idx)]
            else:
                lab = slice(labels[idx[0]], labels[idx[-1]])
        elif isinstance(r, (int, np.integer)):
            lab = labels[r]
        else:
            lab = labels[np.asarray(r, dtype=np.int64)] if len(r) else labels[:0]
        return da.sel(rows=lab).isel(columns=c)
    raise ValueError(mode)


def sel_class(sel):
    def c(ix, n=None):
        k = ix[0]
        if k == "slice":
            s = ix[3]
            return "slice" + ("-" if (s or 1) < 0 else "+") + ("1" if abs(s or 1) == 1 else "k")
        if k in ("list", "arr", "mask"):
            return k + ("0" if (not ix[1] or (k == "mask" and not any(ix[1]))) else "")
        if k == "int":
            return "int" + ("-" if ix[1] < 0 else "+")
        return k
    return f"{sel['mode']}:{c(sel['rows'])}/{c(sel['columns'])}"
