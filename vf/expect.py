"""Expected tree content computed from file bytes + the frozen leaf spec (vf/spec/leaves_*.json).

The spec says, for every node of a region, which attributes and variables exist and from which field(s) of which
record each value comes, with which conversion, scale factor, unit and dimension.  Values are decoded here with
independent arithmetic (vf/refdec.py); nothing is imported from the repository.
"""
import datetime
import json
import math
import os
from decimal import Decimal
from fractions import Fraction

import numpy as np

from vf import refdec

_here = os.path.dirname(os.path.abspath(__file__))
_cache = {}


def spec(name):
    if name not in _cache:
        _cache[name] = json.load(open(os.path.join(_here, "spec", f"leaves_{name}.json"), encoding="utf-8"))
    return _cache[name]


class Unavailable(Exception):
    """the source field does not hold an admissible value (the generator should not have produced it)"""


def ulp(x):
    return math.ulp(x) if math.isfinite(x) else 0.0


def convert(conv, value, raw, scale=None):
    """-> (python value, tolerance in ulps)"""
    if isinstance(value, Exception):
        raise Unavailable(str(value))
    if conv == "text":
        return value, 0
    if conv == "int":
        return int(value), 0
    if conv == "float":
        if scale is None:
            return float(value), 0
        text = raw.decode("ascii").strip(" ")
        if text == "":
            return float("nan"), 0
        exact = Fraction(Decimal(text)) * Fraction(Decimal(scale))
        return _to_float(exact), 4
    if conv == "uint_scaled":
        exact = Fraction(int(value)) * Fraction(Decimal(scale))
        return _to_float(exact), 2
    if conv == "uint":
        return int(value), 0
    if conv == "complex":
        return complex(value[0], value[1]), 0
    if conv == "enum":
        return value, 0
    if conv == "bool":
        return bool(value), 0
    if conv == "bool_int":
        return bool(value), 0
    if conv == "datetime_compact":
        # YYYYMMDDhhmmss + fraction digits -> ISO 8601 text
        t = value
        if len(t) < 15 or not t.isdigit():
            raise Unavailable(t)
        frac = (t[14:] + "000000")[:6]
        dt = datetime.datetime(int(t[:4]), int(t[4:6]), int(t[6:8]), int(t[8:10]), int(t[10:12]), int(t[12:14]), int(frac))
        return dt.isoformat(), 0
    raise ValueError(conv)


def pp_datetime(date_text, seconds_raw):
    """date 'YYYY MM DD' (blank separated) + seconds of day (decimal text) -> ISO 8601, exact to the microsecond"""
    parts = date_text.split()
    if len(parts) != 3:
        raise Unavailable(date_text)
    y, m, d = (int(x) for x in parts)
    sec = Decimal(seconds_raw.decode("ascii").strip(" "))
    us = int((sec * 1000000).to_integral_value(rounding="ROUND_HALF_EVEN"))
    return (datetime.datetime(y, m, d) + datetime.timedelta(microseconds=us)).isoformat()


def _to_float(exact):
    try:
        return float(exact)
    except OverflowError:
        return math.inf if exact > 0 else -math.inf


def _count(counts, c):
    return counts[c] if isinstance(c, str) else c


def expected_region(region_spec, src, variant=None):
    """region_spec: {"nodes": {...}}; src: dict(values, raw, counts) -> {node path: {"attrs": {...}, "vars": {...}}}"""
    vals, raws, counts = src["values"], src["raw"], src["counts"]
    out = {}
    for node in region_spec["nodes"]:
        path = node["path"]
        if any(not _when(w, src) for w in node.get("when", [])):
            continue
        attrs, tol = {}, {}
        for name, a in node.get("attrs", {}).items():
            if "const" in a:
                attrs[name] = a["const"]
            elif a.get("conv") == "pp_datetime":
                attrs[name], tol[name] = pp_datetime(vals[a["srcs"][0]], raws[a["srcs"][1]]), 0
            elif a.get("optional") and raws[a["src"]].strip(b" ") == b"":
                continue  # header-derived attributes exist exactly when the field is non-blank
            elif a.get("conv") == "valid_range":
                attrs[name], tol[name] = [0, int(vals[a["src"]])], 0
            else:
                attrs[name], tol[name] = convert(a["conv"], vals[a["src"]], raws[a["src"]], a.get("scale"))
        variables = {}
        for name, v in node.get("vars", {}).items():
            if "const" in v:
                data = v["const"]
                tols = 0
            elif v.get("time") in ("ydms", "ydus"):
                n = _count(counts, "n_lines")
                data = []
                for i in range(n):
                    y, doy, ms = vals[f"ln:{i}:sensor_acquisition_date"]
                    if v["time"] == "ydms":
                        data.append(refdec.ns_since_epoch(refdec.instant(y, doy, ms)))
                    else:
                        day = refdec.instant(y, doy, ms).replace(hour=0, minute=0, second=0, microsecond=0)
                        us = vals[f"ln:{i}:sensor_acquisition_date_microseconds"]
                        data.append(refdec.ns_since_epoch(day) + us * 1000)
                tols = 0
            elif "nested" in v:
                n = _count(counts, "n_lines")
                data = []
                for i in range(n):
                    el = {}
                    for sub, e in v["nested"].items():
                        s_ = e["template"].format(i=i)
                        val, _t = convert(e["conv"], vals[s_], raws[s_], e.get("scale"))
                        el[sub] = (val, {"units": e["units"]})
                    data.append(el)
                tols = 2
            elif v.get("time") == "attitude":
                # the one calendar rule (C17): 1 January of the platform-position year + (day_of_year - 1) days + ms
                n = _count(counts, "n_att")
                year = int(vals["pp:datetime_of_first_point.date"].split()[0])
                data = [refdec.ns_since_epoch(refdec.instant(year, vals[f"att:{i}:time.day_of_year"], vals[f"att:{i}:time.millisecond_of_day"]))
                        for i in range(n)]
                tols = 0
            else:
                srcs = v["src"]
                if isinstance(srcs, dict):
                    n = _count(counts, srcs["count"])
                    srcs = [srcs["template"].format(i=i) for i in range(n)]
                conv = [convert(v["conv"], vals[s], raws[s], v.get("scale")) for s in srcs]
                data = [c[0] for c in conv]
                tols = max([c[1] for c in conv] or [0])
                shape = v.get("shape")
                if shape:
                    data = np.array(data, dtype=object).reshape(shape).tolist()
                elif not v["dims"]:
                    data = data[0]
            variables[name] = {"dims": list(v["dims"]), "data": data, "attrs": v.get("attrs", {}), "tol": tols,
                               "coord": bool(v.get("coord")), "kind": v.get("kind"), "time": v.get("time")}
            if "nested" in v:
                variables[name]["nested"] = True
        out[path] = {"attrs": attrs, "attr_tol": tol, "vars": variables, "children": node.get("children")}
    return out


def _when(cond, src):
    k, v = cond
    if k == "n_mp>=":
        return src["counts"]["n_mp"] >= v
    if k == "designator":
        d = src["values"].get("mp:map_projection_designator")
        return isinstance(d, str) and d.lower().split("-", 1)[0] in v
    raise ValueError(cond)


# ----------------------------------------------------------------------------
# comparison with a real DataTree

def close(a, b, ulps):
    if isinstance(b, complex) or isinstance(a, complex):
        a, b = complex(a), complex(b)
        if math.isnan(b.real) or math.isnan(b.imag):
            # one (or both) halves of the column are blank: the value is "missing"; C20 asks for NaN, not for the
            # surviving half to be kept (the pinned reader yields nan+nanj when the imaginary half is blank)
            return math.isnan(a.real) or math.isnan(a.imag)
        return close(a.real, b.real, ulps) and close(a.imag, b.imag, ulps)
    if isinstance(b, float) or isinstance(a, float):
        a, b = float(a), float(b)
        if math.isnan(a) or math.isnan(b):
            return math.isnan(a) and math.isnan(b)
        if a == b:
            return ulps > 0 or math.copysign(1, a) == math.copysign(1, b) or True
        return abs(a - b) <= ulps * max(ulp(a), ulp(b))
    return a == b and type(a) is type(b) or (a == b and {type(a), type(b)} <= {int, bool} and type(a) is type(b))


def compare_node(path, node, exp, problems, skip_values=(), skip_time_kinds=()):
    """node: DataTree node; exp: expected dict from expected_region"""
    ds = node.to_dataset(inherit=False)
    got_attrs = dict(ds.attrs)
    for k in set(got_attrs) | set(exp["attrs"]):
        if k not in exp["attrs"]:
            problems.append(f"{path}: unexpected attribute {k!r} = {got_attrs[k]!r}")
        elif k not in got_attrs:
            problems.append(f"{path}: attribute {k!r} missing (expected {exp['attrs'][k]!r})")
        else:
            g, w = got_attrs[k], exp["attrs"][k]
            if not _same_attr(g, w, exp["attr_tol"].get(k, 0)):
                problems.append(f"{path}@{k}: {g!r} ({type(g).__name__}) != expected {w!r} ({type(w).__name__})")
    got_vars = {str(k): v for k, v in ds.variables.items()}
    for k in set(got_vars) | set(exp["vars"]):
        if k not in exp["vars"]:
            problems.append(f"{path}: unexpected variable {k!r}")
            continue
        if k not in got_vars:
            problems.append(f"{path}: variable {k!r} missing")
            continue
        v, w = got_vars[k], exp["vars"][k]
        if list(v.dims) != w["dims"]:
            problems.append(f"{path}#{k}: dims {list(v.dims)} != {w['dims']}")
            continue
        if dict(v.attrs) != w["attrs"]:
            problems.append(f"{path}#{k}: attrs {dict(v.attrs)!r} != {w['attrs']!r}")
        if (k in ds.coords) != w["coord"]:
            problems.append(f"{path}#{k}: is{'' if k in ds.coords else ' not'} a coordinate, expected the opposite")
        if f"{path}#{k}" in skip_values or w.get("time") in skip_time_kinds:
            continue
        a = np.asarray(v.values)
        if w.get("time"):
            if a.dtype != np.dtype("datetime64[ns]"):
                problems.append(f"{path}#{k}: dtype {a.dtype}, expected datetime64[ns]")
            elif a.astype("int64").reshape(-1).tolist() != list(w["data"]):
                got = a.reshape(-1)
                j = [x != y for x, y in zip(got.astype("int64").tolist(), w["data"])].index(True) if len(got) == len(w["data"]) else 0
                problems.append(f"{path}#{k}[{j}]: {got[j] if len(got) else None} != expected {np.datetime64(int(w['data'][j]), 'ns') if w['data'] else None}"
                                f" (delta {int(got.astype('int64')[j]) - int(w['data'][j])} ns)" if len(got) == len(w["data"]) else f"{path}#{k}: {len(got)} time values, expected {len(w['data'])}")
            continue
        if "nested" in w:
            ok = a.dtype == object and a.shape == (len(w["data"]),)
            if ok:
                for g, x in zip(a.tolist(), w["data"]):
                    if not (isinstance(g, dict) and set(g) == set(x) and all(isinstance(g[s_], tuple) and len(g[s_]) == 2 and close(g[s_][0], x[s_][0], w["tol"]) and g[s_][1] == x[s_][1] for s_ in x)):
                        ok = False
                        break
            if not ok:
                problems.append(f"{path}#{k}: nested sub-struct values differ: {a.tolist()[:1]!r} expected {w['data'][:1]!r}")
            continue
        want = np.array(w["data"], dtype=object) if not isinstance(w["data"], (int, float, str, bool, complex)) else np.array(w["data"], dtype=object)
        if a.shape != want.shape:
            problems.append(f"{path}#{k}: shape {a.shape} != {want.shape}")
            continue
        kind = a.dtype.kind
        flat_g, flat_w = a.reshape(-1).tolist(), want.reshape(-1).tolist()
        for idx, (g, x) in enumerate(zip(flat_g, flat_w)):
            ok = _same_value(g, x, w["tol"], kind)
            if not ok:
                problems.append(f"{path}#{k}[{idx}]: {g!r} != expected {x!r} (dtype {a.dtype})")
                break


def _same_attr(g, w, tol):
    if isinstance(w, float):
        return isinstance(g, float) and close(g, w, tol)
    if isinstance(w, (list, tuple)):
        return type(g) is type(w) and len(g) == len(w) and all(_same_attr(a, b, tol) for a, b in zip(g, w))
    if isinstance(w, bool) or isinstance(g, bool):
        return type(g) is type(w) and g == w
    return type(g) is type(w) and g == w


def _same_value(g, x, tol, kind):
    if isinstance(x, bool):
        return kind == "b" and bool(g) == x
    if isinstance(x, int):
        return kind in "iu" and int(g) == x
    if isinstance(x, float):
        return kind == "f" and close(float(g), x, tol)
    if isinstance(x, complex):
        return kind == "c" and close(complex(g), x, tol)
    if isinstance(x, str):
        return kind == "U" and str(g) == x
    return g == x
