"""Small helpers shared by property modules."""
import itertools
import os
import random

import numpy as np

from vf import env, synth

FS_KINDS = ["local", "file", "memory", "vfs", "lvfs", "zip"]
_counter = itertools.count()


def group_name(image_file_name):
    """independent statement of the naming rule: polarisation [+ _scan<n> for ScanSAR files]"""
    parts = image_file_name.split("-")
    pol = parts[1]
    last = parts[-1]
    if len(last) == 2 and last[0] in "BF" and last[1].isdigit():
        return f"{pol}_scan{last[1]}"
    return pol


# glob magic (* ? [ ] { }) is left out on purpose: FSMap.__getitem__ glob-expands such paths inside fsspec, which is not the
# package's doing ('a**b' is rejected by fsspec outright, 'a*b' may match a sibling directory)
ODD = ["#", " ", "%", "+", "&", "=", "(", ")", "\u00e9", "\u30c7\u30fc\u30bf", ",", ";", "@", "!", "~", "'", "%20", "|", "$", "^", "`"]
ODD_NO_GLOB = ODD


def unique_root(kind, tag="p", rng=None, p_odd=0.3):
    """a fresh product directory; with an rng, 30% of the directory names carry characters that are special to URLs,
    globs or shells (all of them open fine on the pinned tree)"""
    n = next(_counter)
    name = f"{tag}{os.getpid()}_{n}"
    if rng is not None and rng.random() < p_odd:
        pool = ODD if kind in ("local", "file", "memory") else ODD_NO_GLOB
        name = name + rng.choice(pool) + rng.choice(pool) + "x"
    if kind in ("local", "file", "zip"):
        return os.path.join(env.scratch(), "products", name)
    return f"/{name}"


def open_tree(url, **backend_options):
    import ceos_alos2

    return ceos_alos2.open_alos2(url, backend_options=backend_options)


def rpc_class(rpc, n):
    if rpc == 1:
        return "1"
    if rpc > 2 ** 30:
        return "huge"
    if rpc > n:
        return ">N"
    if rpc == n:
        return "=N"
    return "div" if n % rpc == 0 else "nondiv"


def geom_class(lines, pixels):
    if pixels >= 1000:
        return "wide"
    if lines >= 300:
        return "tall"
    if lines == 1 and pixels == 1:
        return "1x1"
    if lines == 1:
        return "1xN"
    if pixels == 1:
        return "Nx1"
    return "NxM"


def rpc_candidates(n, rng=None):
    c = {1, n, n + 1, 2 * n + 3, 2 ** 40}
    for d in range(2, n):
        if n % d == 0:
            c.add(d)
            break
    for d in range(2, n):
        if n % d:
            c.add(d)
            break
    if n > 1:
        c.add(n - 1)
    if rng is not None and n > 3:
        c.add(rng.randrange(2, n))
    return sorted(c)


def exc_sig(e):
    return f"{type(e).__name__}: {str(e)[:200]}"


def pow2_geometry(typ, k, rng):
    """(lines, pixels, rpc) such that the bytes spanned by one full group of rpc lines (first sample of the first line ..
    last sample of the last line) are exactly 2**k: round sizes are where block-splitting code changes behaviour"""
    prefix, bps = (192, 2) if typ == "IU2" else (544, 8)
    sols = []
    for n in range(1, 65):
        if (2 ** k + prefix) % n:
            continue
        reclen = (2 ** k + prefix) // n
        if prefix < reclen <= 999999 and (reclen - prefix) % bps == 0:  # the record length field has six digits
            sols.append((n, (reclen - prefix) // bps))
    if not sols:
        return None
    n, p = rng.choice(sols)
    return n * rng.choice([1, 2, 3]) + rng.choice([0, 0, 1, n // 2]), p, n
