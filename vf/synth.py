"""Independent CEOS encoder: product model -> bytes.

Driven only by the frozen layout table (vf/spec/layout.json); imports nothing
from the repository.  A *model* is plain JSON-able data (so it can be written
to a replay file):

ASCII fields take the literal text to place (``None`` = blank).  Text shorter
than the field is right-justified for numeric kinds and left-justified for
strings unless given as ``["L"|"R"|"raw", text]``.  Binary fields take ints,
``bytes`` fields take a hex string, ``ydms`` takes [year, day, ms], ``ydus`` an
int, ``A_complex`` a pair of texts.
"""
import json
import os
import struct

_here = os.path.dirname(os.path.abspath(__file__))
LAYOUT = json.load(open(os.path.join(_here, "spec", "layout.json"), encoding="utf-8"))
_INDEX = {rec: {f["name"]: f for f in v["fields"]} for rec, v in LAYOUT.items()}


def fields(rec):
    return LAYOUT[rec]["fields"]


def field(rec, name):
    return _INDEX[rec][name]


def size(rec):
    return LAYOUT[rec]["size"]


def is_spare(f):
    """spare / blank / reserved areas by naming convention of the format tables"""
    last = f["name"].split(".")[-1].split("~")[0]
    for p in ("spare", "blanks"):
        if last.startswith(p) and (last[len(p):] == "" or last[len(p):].isdigit()):
            return True
    return False


def base_kind(f):
    return f["base"] if f["kind"] == "enum" else f["kind"]


def _ascii(kind, w, v):
    if v is None:
        return b" " * w
    mode = "L" if kind == "A_str" else "R"
    if isinstance(v, (list, tuple)):
        mode, v = v
    if not isinstance(v, str):
        v = str(v)
    b = v.encode("ascii")
    if len(b) > w:
        raise ValueError(f"text {v!r} wider than field ({w})")
    if mode == "raw":
        if len(b) != w:
            raise ValueError(f"raw text {v!r} must fill the field ({w})")
        return b
    return b.ljust(w) if mode == "L" else b.rjust(w)


def enc(f, v):
    kind = base_kind(f)
    w = f["width"]
    if kind in ("A_int", "A_float", "A_str"):
        return _ascii(kind, w, v)
    if kind == "A_complex":
        if v is None:
            return b" " * w
        re_, im_ = v
        return _ascii("A_float", w // 2, re_) + _ascii("A_float", w // 2, im_)
    if kind in ("u8", "u16", "u32", "u64", "flag"):
        return int(v or 0).to_bytes(w, "big")
    if kind == "bytes":
        b = bytes.fromhex(v) if isinstance(v, str) else (v or b"")
        if len(b) > w:
            raise ValueError("bytes too long")
        return b.ljust(w, b"\0")
    if kind == "ydms":
        y, d, ms = v or (2000, 1, 0)
        return struct.pack(">III", y, d, ms)
    if kind == "ydus":
        return struct.pack(">Q", int(v or 0))
    raise ValueError(kind)


def build(rec, values, spare=None):
    """encode one fixed-size record.  ``spare(rec, field) -> bytes | None`` fills spare areas"""
    out = bytearray()
    unknown = set(values) - set(_INDEX[rec])
    if unknown:
        raise KeyError(f"{rec}: unknown fields {sorted(unknown)}")
    for f in fields(rec):
        if f["name"] in values:
            out += enc(f, values[f["name"]])
        elif spare is not None and is_spare(f):
            b = spare(rec, f)
            out += enc(f, None) if b is None else b
        else:
            out += enc(f, None)
    assert len(out) == size(rec)
    return bytes(out)


def preamble(seq, sub1, rtype, sub2, sub3, length):
    return {
        "preamble.record_sequence_number": seq,
        "preamble.first_record_subtype": sub1,
        "preamble.record_type": rtype,
        "preamble.second_record_subtype": sub2,
        "preamble.third_record_subtype": sub3,
        "preamble.record_length": length,
    }


def _filler(n, fill):
    if fill is None:
        return b" " * n
    b = fill if isinstance(fill, bytes) else fill.encode("ascii")
    if len(b) != n:
        raise ValueError(f"filler has {len(b)} bytes, need {n}")
    return b


# ----------------------------------------------------------------------------
# leader

def attitude_bytes(m, spare=None):
    n = len(m["points"])
    L = m["length"]
    head = dict(preamble(*m.get("preamble", (5, 18, 40, 18, 20)), L))
    head["number_of_points"] = m.get("count_text", str(n))
    out = bytearray(build("att_head", head))
    for p in m["points"]:
        out += build("att_pt", p, spare)
    rest = L - len(out)
    if rest < 0:
        raise ValueError("attitude record too short for its points")
    out += _filler(rest, m.get("tail"))
    return bytes(out)


def dq_bytes(m, spare=None):
    n = len(m["cal"])
    assert len(m["mis"]) == n
    head = dict(preamble(*m.get("preamble", (7, 18, 60, 18, 20)), 1620))
    head.update(m.get("head", {}))
    head["number_of_channels"] = m.get("count_text", str(n))
    out = bytearray(build("dq_head", head, spare))
    for c in m["cal"]:
        out += build("dq_cal", c)
    out += _filler(512 - 32 * n, m.get("blanks1"))
    out += build("dq_geo", m.get("geo", {}))
    for c in m["mis"]:
        out += build("dq_mis", c)
    out += _filler(534 + (8 - n) * 32, m.get("blanks2"))
    assert len(out) == 1620, len(out)
    return bytes(out)


def facility_bytes(m, seq):
    L = m["length"]
    head = dict(preamble(*m.get("preamble", (seq, 18, 200, 18, 70)), L))
    head["record_sequence_number"] = m.get("number", str(seq))
    if "blanks" in m:
        head["blanks"] = m["blanks"]
    out = bytearray(build("fac_head", head))
    out += _filler(L - 66, m.get("raw"))
    return bytes(out)


def leader_bytes(m, spare=None):
    parts = []
    fd = dict(preamble(1, 63, 192, 18, 18, 720))
    fd.update(m.get("led_fd", {}))
    fd.setdefault("map_projection.number_of_records", str(len(m.get("mp", []))))
    parts.append(build("led_fd", fd, spare))
    ds = dict(preamble(2, 18, 10, 18, 20, 4096))
    ds.update(m["ds"])
    parts.append(build("ds", ds, spare))
    for mp in m.get("mp", []):
        v = dict(preamble(3, 18, 20, 18, 20, 1620))
        v.update(mp)
        parts.append(build("mp", v, spare))
    pp = dict(preamble(4, 18, 30, 18, 20, 4680))
    pp.update(m["pp"])
    parts.append(build("pp", pp, spare))
    parts.append(attitude_bytes(m["att"], spare))
    rad = dict(preamble(6, 18, 50, 18, 20, 9860))
    rad.update(m.get("rad", {}))
    parts.append(build("rad", rad, spare))
    parts.append(dq_bytes(m["dq"], spare))
    for i, fac in enumerate(m["fac"]):
        parts.append(facility_bytes(fac, i + 1))
    f5 = dict(preamble(12, 18, 200, 18, 70, 5000))
    f5.update(m["f5"])
    parts.append(build("f5", f5, spare))
    return b"".join(parts)


# ----------------------------------------------------------------------------
# image

REC = {"C*8": ("sig", 10, 8), "IU2": ("proc", 11, 2)}


def image_bytes(m, spare=None):
    """m: {type, lines, pixels, fd:{}, prefix:[{}...], rows:[bytes...]}"""
    rec, rtype, bps = REC[m["type"]]
    lines, pixels = m["lines"], m["pixels"]
    reclen = size(rec) + pixels * bps
    fd = dict(preamble(1, 50, 192, 18, 18, 720))
    fd.update({
        "number_of_sar_data_records": str(lines),
        "sar_data_record_length": str(reclen),
        "sar_related_data_in_the_record.number_of_lines_per_dataset": str(lines),
        "sar_related_data_in_the_record.number_of_data_groups_per_line": str(pixels),
        "prefix_suffix_data_locators.sar_data_format_type_code": m["type"],
    })
    fd.update(m.get("fd", {}))
    out = [build("img_fd", fd, spare)]
    for i in range(lines):
        p = dict(preamble(i + 2, 50, rtype, 18, 20, reclen))
        p.update(m["prefix"][i])
        row = m["rows"][i]
        if len(row) != pixels * bps:
            raise ValueError("row length")
        out.append(build(rec, p, spare) + row)
    return b"".join(out)


# ----------------------------------------------------------------------------
# volume directory, trailer

def volume_bytes(m, spare=None):
    n = len(m.get("fps", []))
    vd = dict(preamble(1, 192, 192, 18, 18, 360))
    vd.update(m["vd"])
    vd.setdefault("number_of_file_pointer_records", str(n))
    parts = [build("vd", vd, spare)]
    for i, fp in enumerate(m.get("fps", [])):
        v = dict(preamble(2 + i, 219, 192, 18, 18, 360))
        v.update(fp)
        parts.append(build("fp", v, spare))
    tx = dict(preamble(2 + n, 18, 63, 18, 18, 360))
    tx.update(m["txt"])
    parts.append(build("txt", tx, spare))
    return b"".join(parts)


def trailer_bytes(m, spare=None):
    """m: {head:{}, images:[{pixels, lines, nbytes, data: bytes}], tail}"""
    imgs = m.get("images", [])
    head = dict(preamble(1, 63, 192, 18, 18, 720))
    head.update(m.get("head", {}))
    head["number_of_low_resolution_images"] = str(len(imgs))
    out = bytearray(build("trl_head", head, spare))
    for im in imgs:
        out += build("trl_img", {
            "record_length": str(len(im["data"])),
            "number_of_pixels": str(im["pixels"]),
            "number_of_lines": str(im["lines"]),
            "number_of_bytes_per_one_sample": str(im["nbytes"]),
        })
    out += _filler(720 - len(out), m.get("tail"))
    for im in imgs:
        out += im["data"]
    return bytes(out)


# ----------------------------------------------------------------------------
# summary + product

def summary_text(entries, newline="\n"):
    """entries: list of (section, key, value)"""
    return "".join(f'{s}_{k}="{v}"{newline}' for s, k, v in entries)


def default_summary_entries(files, level_tag, product_id, scene_id, shapes):
    e = [
        ("Odi", "SiteDateTime", "20200301 01:02:03"),
        ("Odi", "ProductionOrderNo", "X0001"),
        ("Scs", "SceneID", scene_id),
        ("Scs", "SceneShift", "0"),
        ("Pds", "ProductID", product_id),
        ("Pds", "ResamplingMethod", "NN"),
        ("Pds", "UTM_ZoneNo", "54"),
        ("Pds", "MapDirection", "MapNorth"),
        ("Pds", "OrbitDataPrecision", "Precision"),
        ("Pds", "AttitudeDataPrecision", "Onboard"),
        ("Img", "SceneCenterDateTime", "20140829 03:13:32.124"),
        ("Img", "SceneStartDateTime", "20140829 03:13:06.124"),
        ("Img", "ImageSceneCenterLatitude", "35.5"),
        ("Pdi", "ProductFormat", "CEOS"),
        ("Pdi", f"CntOf{level_tag}ProductFileName", str(len(files))),
    ]
    for i, f in enumerate(files, 1):
        e.append(("Pdi", f"{level_tag}ProductFileName{i:02d}", f))
    e.append(("Pdi", "BitPixel", "16"))
    for i, (px, ln) in enumerate(shapes):
        e.append(("Pdi", f"NoOfPixels_{i}", str(px)))
        e.append(("Pdi", f"NoOfLines_{i}", str(ln)))
    e += [
        ("Pdi", "ProductDataSize", "1.5"),
        ("Ach", "TimeCheck", ""),
        ("Ach", "AttitudeCheck", "GOOD"),
        ("Rad", "PracticeResultCode", "GOOD"),
        ("Lbi", "Satellite", "ALOS2"),
        ("Lbi", "Sensor", "SAR"),
        ("Lbi", "ProcessLevel", "1.5"),
        ("Lbi", "ProcessFacility", "EICS"),
        ("Lbi", "ObservationDate", "20140829"),
    ]
    return e


def install(files, root, kind="local"):
    """write {name: bytes} as a product directory; returns the path/URL to open.

    kind: local -> plain path; file -> file:// URL; memory -> memory:// ; vfs -> vfs:// (tracefs)
    """
    if kind in ("local", "file"):
        os.makedirs(root, exist_ok=True)
        for n, b in files.items():
            with open(os.path.join(root, n), "wb") as f:
                f.write(b)
        return root if kind == "local" else "file://" + root
    if kind == "memory":
        import fsspec

        fs = fsspec.filesystem("memory")
        for n, b in files.items():
            fs.pipe(f"{root}/{n}", b)
        return "memory://" + root
    if kind == "vfs":
        from vf import tracefs

        for n, b in files.items():
            tracefs.STORE[f"{root}/{n}"] = b
        return "vfs://" + root
    if kind == "zip":
        # the product directory 'prod' inside an archive; root is the archive's path without extension
        import zipfile

        from fsspec.implementations.zip import ZipFileSystem

        os.makedirs(os.path.dirname(root), exist_ok=True)
        with zipfile.ZipFile(root + ".zip", "w") as z:
            for n, b in files.items():
                z.writestr("prod/" + n, b)
        ZipFileSystem.clear_instance_cache()  # fsspec caches archive instances (and their member tables) by path
        return f"zip://prod::{root}.zip"
    if kind == "lvfs":
        from vf import stagefs

        d = stagefs.base() + root
        os.makedirs(d, exist_ok=True)
        for n, b in files.items():
            with open(os.path.join(d, n), "wb") as f:
                f.write(b)
        return "lvfs://" + root
    raise ValueError(kind)


def uninstall(files, root, kind):
    if kind in ("local", "file"):
        import shutil

        shutil.rmtree(root, ignore_errors=True)
    elif kind == "memory":
        import fsspec

        fs = fsspec.filesystem("memory")
        try:
            fs.rm(root, recursive=True)
        except FileNotFoundError:
            pass
    elif kind == "vfs":
        from vf import tracefs

        for k in [k for k in tracefs.STORE if k.startswith(root + "/")]:
            del tracefs.STORE[k]
    elif kind == "lvfs":
        import shutil

        from vf import stagefs

        shutil.rmtree(stagefs.base() + root, ignore_errors=True)
    elif kind == "zip":
        from fsspec.implementations.zip import ZipFileSystem

        ZipFileSystem.clear_instance_cache()
        try:
            os.remove(root + ".zip")
        except FileNotFoundError:
            pass
