"""Evidence writer (schema: /root/.vp/EVIDENCE.schema.json) and verdict printing."""
import json
import os
import sys
import time

from vf import env

_schema = None


def _validate(doc):
    try:
        import jsonschema
    except Exception:
        return
    path = "/root/.vp/EVIDENCE.schema.json"
    if not os.path.exists(path):
        return
    jsonschema.validate(doc, json.load(open(path)))


def write(prop, tier, seed, level, coverage, wall_s, violations=0, assumptions=()):
    doc = {
        "property_id": prop,
        "tier": tier,
        "seed": int(seed),
        "level": level,
        "coverage": coverage,
        "assumptions": list(assumptions),
        "wall_s": round(float(wall_s), 3),
        "violations": int(violations),
    }
    _validate(doc)
    # evidence/ only ever describes /repo itself; runs against a scratch copy (selftest, seeded changes) write elsewhere
    d = os.path.join(env.VERIF, "evidence" if os.path.realpath(env.REPO) == "/repo" else ".selftest-evidence")
    os.makedirs(d, exist_ok=True)
    tmp = os.path.join(d, f".{prop}.json.tmp")
    with open(tmp, "w") as f:
        json.dump(doc, f, indent=1, default=_default, ensure_ascii=False)
        f.write("\n")
    os.replace(tmp, os.path.join(d, f"{prop}.json"))
    return doc


def _default(o):
    if isinstance(o, bytes):
        return {"__bytes__": o.hex()}
    if isinstance(o, (set, frozenset)):
        return sorted(o)
    try:
        import numpy as np

        if isinstance(o, np.generic):
            return o.item()
        if isinstance(o, np.ndarray):
            return o.tolist()
    except Exception:
        pass
    return repr(o)


def write_replay(prop, payload):
    import hashlib

    d = os.path.join(env.VERIF, "replays", prop)
    os.makedirs(d, exist_ok=True)
    s = json.dumps(payload, default=_default, sort_keys=True, ensure_ascii=False)
    h = hashlib.sha256(s.encode()).hexdigest()[:16]
    path = os.path.join(d, f"{h}.json")
    with open(path, "w") as f:
        f.write(s)
    return path
