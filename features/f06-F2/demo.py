"""F2 demo: new public helper ``ceos_alos2.sar_trailer.open_sar_trailer(mapper, path)``.

Run as ``cd <checkout> && PYTHONPATH=<checkout> /venv/bin/python demo.py``.

Prints ``OLD`` if the helper does not exist (unmodified tree) and ``NEW`` if it exists and
decodes a synthetic trailer from a mapping exactly like ``read_sar_trailer`` does from a
file object. Only in-memory objects are used, so there is nothing to clean up.
"""

import io
import sys

import numpy as np

import ceos_alos2.sar_trailer as sar_trailer


def trailer_header(entries):
    header = bytearray(b" " * 720)
    header[:12] = bytes(12)
    header[490:496] = f"{len(entries):6d}".encode()
    offset = 496
    for n_pixels, n_lines, n_bytes in entries:
        length = n_pixels * n_lines * n_bytes
        header[offset : offset + 26] = f"{length:8d}{n_pixels:6d}{n_lines:6d}{n_bytes:6d}".encode()
        offset += 26
    return bytes(header)


entries = [(3, 2, 2), (2, 2, 1), (1, 3, 4)]
images = [
    (np.arange(p * l).reshape(p, l) - 2).astype(f">i{b}") for p, l, b in entries  # noqa: E741
]
content = trailer_header(entries) + b"".join(image.tobytes() for image in images)

# the long-standing entry point behaves the same on both trees
header, decoded = sar_trailer.read_sar_trailer(io.BytesIO(content))
assert header.number_of_low_resolution_images == len(entries)
assert all(np.array_equal(a, b) and a.dtype == b.dtype for a, b in zip(decoded, images))

if not hasattr(sar_trailer, "open_sar_trailer"):
    print("OLD")
    sys.exit(0)

store = {"TRL-DEMO": content}
header2, decoded2 = sar_trailer.open_sar_trailer(store, "TRL-DEMO")
assert header2 == header
assert len(decoded2) == len(images)
assert all(np.array_equal(a, b) and a.dtype == b.dtype for a, b in zip(decoded2, images))

try:
    sar_trailer.open_sar_trailer(store, "TRL-MISSING")
except FileNotFoundError as e:
    assert "TRL-MISSING" in str(e)
else:
    print("UNEXPECTED: missing trailer was not reported")
    sys.exit(1)

print("NEW")
