"""F2 demo: `AsciiFloat` / `AsciiComplex` accept Fortran `D` exponents.

Run as: cd <checkout> && PYTHONPATH=<checkout> /venv/bin/python demo.py
Prints OLD on the unmodified tree, NEW with F2 applied. Touches no files.
"""

import math
import sys

from ceos_alos2.datatypes import AsciiComplex, AsciiFloat


def probe(parser, data):
    try:
        return ("value", parser.parse(data))
    except ValueError as e:
        return ("ValueError", str(e))


def main():
    # unchanged behaviour (both trees)
    assert AsciiFloat(16).parse(b"     6598487.832") == 6598487.832
    assert AsciiFloat(16).parse(b"  -1.2500000E+03") == -1250.0
    assert math.isnan(AsciiFloat(16).parse(b" " * 16))
    assert AsciiFloat(8).parse(b"     inf") == math.inf
    for garbage in (b"     abc", b"  1.0D+D", b"    D+03", b" 1.0F+03", b"1.0 D+03"):
        kind, _ = probe(AsciiFloat(8), garbage)
        assert kind == "ValueError", garbage

    results = [
        probe(AsciiFloat(16), b"  0.15000000D+03"),
        probe(AsciiFloat(16), b" -2.50000000d-01 "[:16]),
        probe(AsciiComplex(16), b"1.50D+01-2.5D+00"),
    ]

    if all(kind == "ValueError" for kind, _ in results):
        print("OLD")
        return 0
    if results == [("value", 150.0), ("value", -0.25), ("value", 15.0 - 2.5j)]:
        print("NEW")
        return 0

    print("UNEXPECTED", results)
    return 1


if __name__ == "__main__":
    sys.exit(main())
