"""F3 demo: `Metadata` hands out a fresh attribute mapping with every parse result.

Run as: cd <checkout> && PYTHONPATH=<checkout> /venv/bin/python demo.py
Prints OLD on the unmodified tree, NEW with F3 applied. Touches no files.
"""

import sys

from construct import Int8ub

from ceos_alos2.datatypes import Metadata


def main():
    parser = Metadata(Int8ub, units="m", scale=10)

    value, attrs = parser.parse(b"\x32")
    # unchanged behaviour (both trees): the (value, attrs) pair and its contents
    assert (value, attrs) == (50, {"units": "m", "scale": 10})
    assert type(attrs) is dict

    # a consumer post-processes the attributes of *its* result in place ...
    attrs["units"] = "km"
    del attrs["scale"]

    # ... what does the next, unrelated parse see?
    _, attrs_again = parser.parse(b"\x01")

    shared = attrs is parser.attrs
    if shared and attrs_again == {"units": "km"}:
        print("OLD")  # the edit leaked into the adapter and thus into every later result
        return 0
    if not shared and attrs_again == {"units": "m", "scale": 10} and attrs_again is not attrs:
        print("NEW")
        return 0

    print("UNEXPECTED", shared, attrs_again)
    return 1


if __name__ == "__main__":
    sys.exit(main())
