"""F1 demo: how many bytes does a one-line selection request from a chunk?

Prints OLD when the whole `records_per_chunk` group is fetched, NEW when only
the span of the selected line(s) inside that group is fetched.
"""

import io
import sys

import numpy as np

from ceos_alos2.array import Array

n_rows, n_cols, prefix = 8, 6, 16
rpc = 4
row_bytes = n_cols * 2
record = prefix + row_bytes

image = np.arange(n_rows * n_cols, dtype="uint16").reshape(n_rows, n_cols)
content = b"".join(b"\xff" * prefix + image[i].astype(">u2").tobytes() for i in range(n_rows))
byte_ranges = [(i * record + prefix, (i + 1) * record) for i in range(n_rows)]

requests = []


class RecordingFile(io.BytesIO):
    def read(self, size=-1):
        requests.append((self.tell(), size))
        return super().read(size)


class RecordingFS:
    def open(self, url, mode="rb"):
        return RecordingFile(content)


arr = Array(
    fs=RecordingFS(),
    url="IMG-HH-DEMO",
    byte_ranges=byte_ranges,
    shape=image.shape,
    dtype="uint16",
    type_code="IU2",
    records_per_chunk=rpc,
)

# a single line in the middle of the second group of 4 lines
selected = arr[(slice(5, 6), slice(None))]
if not np.array_equal(selected, image[5:6]):
    print("values differ")
    sys.exit(1)

group_start = byte_ranges[4][0]
group_stop = byte_ranges[7][1]
whole_group = [(group_start, group_stop - group_start)]
only_selected = [(byte_ranges[5][0], row_bytes)]

# strided selection over both groups: still one request per group, inside the group
requests_single = list(requests)
requests.clear()
strided = arr[(slice(1, 8, 2), slice(None))]
if not np.array_equal(strided, image[1:8:2]) or len(requests) != 2:
    print("unexpected strided result", requests)
    sys.exit(1)

if requests_single == whole_group:
    print("OLD")
elif requests_single == only_selected:
    print("NEW")
else:
    print("unexpected requests", requests_single)
    sys.exit(1)
