"""F3 demo: which chunks are read when two far-apart lines are selected by number?

A 6 line image with ``records_per_chunk=1`` is wrapped exactly like
`open_alos2` wraps image arrays (`ceos_alos2.xarray.to_variable`), then lines 0
and 5 are selected with an integer array.

Prints OLD if all 6 chunks between the first and the last selected line are
requested (array indexers are widened to a slice before they reach the file),
NEW if only the 2 chunks that contain selected lines are requested.

Everything lives in memory: nothing is written to disk, nothing to clean up.
"""

import sys

import numpy as np
import xarray as xr

from ceos_alos2.array import Array
from ceos_alos2.hierarchy import Variable
from ceos_alos2.xarray import to_variable


class RecordingFile:
    def __init__(self, content, requests):
        self.content = content
        self.requests = requests
        self.position = 0

    def __enter__(self):
        return self

    def __exit__(self, *exc_info):
        return False

    def seek(self, position, whence=0):
        self.position = position
        return position

    def read(self, size=-1):
        stop = len(self.content) if size < 0 else self.position + size
        data = self.content[self.position : stop]
        self.requests.append((self.position, len(data)))
        self.position += len(data)
        return data


class RecordingFileSystem:
    """minimal stand-in for a fsspec filesystem that records read requests"""

    def __init__(self, content):
        self.content = content
        self.requests = []

    def open(self, url, mode="rb"):
        return RecordingFile(self.content, self.requests)


def main():
    n_lines, n_pixels, prefix = 6, 5, 192
    data = np.arange(n_lines * n_pixels, dtype="uint16").reshape(n_lines, n_pixels)

    content = bytearray(b"\xff" * 720)
    byte_ranges = []
    for line in data.astype(">u2"):
        content += b"\xee" * prefix
        start = len(content)
        content += line.tobytes()
        byte_ranges.append((start, len(content)))

    fs = RecordingFileSystem(bytes(content))
    arr = Array(
        fs=fs,
        url="IMG-HH-ALOS2000000000-200101-UBSR1.5RUD",
        byte_ranges=byte_ranges,
        shape=data.shape,
        dtype="uint16",
        type_code="IU2",
        records_per_chunk=1,
    )
    lazy = xr.DataArray(to_variable(Variable(["rows", "columns"], arr, {})))
    reference = xr.DataArray(data, dims=["rows", "columns"])

    selected = lazy.isel(rows=[0, 5]).load()
    if not selected.identical(reference.isel(rows=[0, 5])):
        print("wrong values", file=sys.stderr)
        return 1

    touched = [byte_ranges[0][0], byte_ranges[5][0]]
    span = [start for start, _ in byte_ranges]
    offsets = [offset for offset, _ in fs.requests]

    if offsets == span:
        print("OLD")
    elif offsets == touched:
        print("NEW")
    else:
        print(f"unexpected requests: {fs.requests}", file=sys.stderr)
        return 1

    return 0


if __name__ == "__main__":
    sys.exit(main())
