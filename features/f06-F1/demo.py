"""F1 demo: a truncated volume directory is reported with a descriptive error.

Run as ``cd <checkout> && PYTHONPATH=<checkout> /venv/bin/python demo.py``.

Prints ``OLD`` when the bare ``construct.StreamError`` of the unmodified tree is raised and
``NEW`` when the error is the new ``TruncatedFileError`` (still a ``StreamError``) that names
the file and the expected / actual sizes. Only an in-memory dict is used as the store, so
there is nothing to clean up.
"""

import sys

from construct import StreamError

from ceos_alos2.volume_directory import open_volume_directory

record_size = 360
n_pointers = 3


def volume_descriptor(n):
    record = bytearray(b" " * record_size)
    record[:12] = bytes(12)
    record[112:128] = b"2020101117233798"  # creation date-time
    record[160:164] = f"{n:4d}".encode()  # number of file pointer records
    record[164:168] = b"   1"
    return bytes(record)


def blank_record():
    return bytes(12) + b" " * (record_size - 12)


complete = volume_descriptor(n_pointers) + blank_record() * n_pointers + blank_record()
assert len(complete) == (n_pointers + 2) * record_size

store = {"VOL-complete": complete, "VOL-cut": complete[:-100]}

# sanity: the complete file opens on both trees, with identical attributes
group = open_volume_directory(store, "VOL-complete")
assert group.attrs["creation_datetime"] == "2020-10-11T17:23:37.980000", group.attrs

try:
    open_volume_directory(store, "VOL-cut")
except StreamError as e:
    if type(e) is StreamError:
        print("OLD")
        sys.exit(0)

    assert isinstance(e, EOFError), type(e).__mro__
    assert e.filename == "VOL-cut"
    assert e.expected == len(complete) and e.actual == len(complete) - 100
    assert "VOL-cut" in str(e) and str(e.expected) in str(e) and str(e.actual) in str(e)
    print("NEW")
    sys.exit(0)

print("UNEXPECTED: truncated volume directory was accepted")
sys.exit(1)
