"""F2 demo: which exception reports an image file that was cut short?

A small synthetic level 1.5 image file (720 byte descriptor + 5 processed data
records) is cut in the middle of its fourth line and opened with
`ceos_alos2.sar_image.open_image`.

Prints OLD if the failure is the generic ``ValueError("sizes mismatch ...")``,
NEW if it is the dedicated ``TruncatedFileError`` (an ``EOFError`` and a
``ValueError``) that names the missing records.

The file only exists in fsspec's in-memory filesystem and is removed again.
"""

import struct
import sys
import uuid

import fsspec
import numpy as np

from ceos_alos2 import sar_image

name = "IMG-HH-ALOS2290760600-191011-WWDR1.5RUA"


def build_image(n_lines=5, n_pixels=4, prefix=192):
    record_length = prefix + 2 * n_pixels

    descriptor = bytearray(b" " * 720)
    descriptor[0:12] = struct.pack(">IBBBBI", 1, 50, 192, 18, 18, 720)

    def put(position, width, value):
        descriptor[position : position + width] = str(value).rjust(width).encode()

    put(180, 6, n_lines)  # number of sar data records
    put(186, 6, record_length)  # sar data record length
    put(236, 8, n_lines)  # lines per dataset
    put(248, 8, n_pixels)  # data groups per line
    put(276, 4, prefix)  # bytes of prefix data per record
    descriptor[428:432] = b"IU2 "

    data = np.arange(n_lines * n_pixels, dtype=">u2").reshape(n_lines, n_pixels)
    records = []
    for index, line in enumerate(data):
        head = bytearray(prefix)
        head[0:12] = struct.pack(">IBBBBI", index + 2, 50, 11, 18, 20, record_length)
        head[12:16] = struct.pack(">I", index + 1)  # line number
        head[16:20] = struct.pack(">I", 1)  # record index
        head[24:28] = struct.pack(">I", n_pixels)  # count of data pixels
        head[36:48] = struct.pack(">III", 2019, 284, 1000 * index)  # acquisition time
        records.append(bytes(head) + line.tobytes())

    return bytes(descriptor) + b"".join(records), record_length


def main():
    content, record_length = build_image()

    root = f"memory://f2-demo-{uuid.uuid4().hex}"
    mapper = fsspec.get_mapper(root)
    try:
        # sanity check: the complete file opens
        mapper[name] = content
        group = sar_image.open_image(mapper, name, use_cache=False, records_per_chunk=2)
        if group["data"].data.shape != (5, 4):
            print("unexpected shape", file=sys.stderr)
            return 1

        # cut in the middle of the fourth record
        mapper[name] = content[: 720 + 3 * record_length + 100]
        try:
            sar_image.open_image(mapper, name, use_cache=False, records_per_chunk=2)
        except Exception as e:
            error = e
        else:
            print("truncated file was accepted", file=sys.stderr)
            return 1
    finally:
        mapper.fs.rm(mapper.root, recursive=True)

    if type(error) is ValueError and "sizes mismatch" in str(error):
        print("OLD")
    elif (
        type(error).__name__ == "TruncatedFileError"
        and isinstance(error, EOFError)
        and isinstance(error, ValueError)
        and "records 3 to 4 of 5" in str(error)
    ):
        print("NEW")
    else:
        print(f"unexpected error: {error!r}", file=sys.stderr)
        return 1

    return 0


if __name__ == "__main__":
    sys.exit(main())
