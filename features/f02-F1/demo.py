"""F1 demo: which exception reports an image with an undecodable format type code?

Prints ``OLD`` on the unmodified tree (plain ``ValueError``) and ``NEW`` with
the change applied (``UnsupportedFormatError``, a ``ValueError`` subclass that
carries the offending code and the supported ones).

Everything lives in fsspec's in-memory filesystem and is removed at the end.
"""

import struct
import sys
import uuid

import fsspec
from construct import Struct

from ceos_alos2 import sar_image
from ceos_alos2.sar_image.file_descriptor import file_descriptor_record

NAME = "IMG-HH-ALOS2290760600-191011-WWDR1.5RUA"


def build_descriptor(values):
    """720-byte SAR image file descriptor; unspecified text fields stay blank"""

    def emit(struct_):
        out = b""
        for sc in struct_.subcons:
            inner = getattr(sc, "subcon", None)
            if sc.name == "preamble":
                out += struct.pack(">IBBBBI", 1, 50, 192, 18, 18, 720)
            elif isinstance(inner, Struct):
                out += emit(inner)
            else:
                size = sc.sizeof()
                value = values.get(sc.name, "")
                text = str(value)
                text = text.rjust(size) if isinstance(value, int) else text.ljust(size)
                out += text.encode("ascii")
        return out

    content = emit(file_descriptor_record)
    assert len(content) == 720, len(content)
    return content


def build_image(n_lines, n_pixels, type_code):
    prefix_size = 192
    record_length = prefix_size + 2 * n_pixels
    header = build_descriptor(
        {
            "number_of_sar_data_records": n_lines,
            "sar_data_record_length": record_length,
            "number_of_lines_per_dataset": n_lines,
            "number_of_data_groups_per_line": n_pixels,
            "interleaving_id": "BSQ",
            "sar_data_format_type_code": type_code,
        }
    )
    records = []
    for line in range(n_lines):
        prefix = bytearray(prefix_size)
        prefix[0:12] = struct.pack(">IBBBBI", line + 2, 50, 11, 18, 20, record_length)
        prefix[12:16] = struct.pack(">I", line + 1)
        prefix[36:48] = struct.pack(">III", 2019, 284, 1000 * line)
        prefix[48:50] = struct.pack(">H", 1)
        pixels = struct.pack(f">{n_pixels}H", *(line * n_pixels + p for p in range(n_pixels)))
        records.append(bytes(prefix) + pixels)
    return header + b"".join(records)


def main():
    fs = fsspec.filesystem("memory")
    root = f"/f1-demo-{uuid.uuid4().hex}"
    try:
        # a well-formed image still opens, and equally so on both trees
        fs.pipe_file(f"{root}/good/{NAME}", build_image(3, 4, "IU2"))
        mapper = fsspec.get_mapper(f"memory://{root}/good")
        group = sar_image.open_image(mapper, NAME, use_cache=False, records_per_chunk=2)
        assert group["data"].data.shape == (3, 4)

        # same image, but declaring the (undecodable) format type "F*4"
        fs.pipe_file(f"{root}/bad/{NAME}", build_image(3, 4, "F*4"))
        mapper = fsspec.get_mapper(f"memory://{root}/bad")
        try:
            sar_image.open_image(mapper, NAME, use_cache=False, records_per_chunk=2)
        except ValueError as e:
            error = e
        else:
            print("UNEXPECTED: no exception")
            return 1
    finally:
        if fs.exists(root):
            fs.rm(root, recursive=True)

    assert "unknown type code" in str(error)

    if type(error) is ValueError:
        print("OLD")
        return 0

    if (
        type(error).__name__ == "UnsupportedFormatError"
        and error.type_code == "F*4"
        and error.supported == ("C*8", "IU2")
        and "C*8, IU2" in str(error)
    ):
        print("NEW")
        return 0

    print(f"UNEXPECTED: {type(error).__name__}: {error}")
    return 1


if __name__ == "__main__":
    sys.exit(main())
