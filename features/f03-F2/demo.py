"""F2 demo: the cache creation tool reports the file it wrote (unless --quiet).

Prints OLD on the unmodified tree and NEW with F2 applied.
"""

import pathlib
import struct
import subprocess
import sys
import tempfile

import fsspec
import numpy as np

from ceos_alos2.sar_image import caching, open_image

IMAGE_NAME = "IMG-HH-ALOS2014410550-140829-UBSR1.5GUD"


def make_image(lines=3, pixels=4):
    """minimal level 1.5 (IU2, 192 byte prefix) image file"""
    record_length = 192 + 2 * pixels
    header = bytearray(b" " * 720)
    header[0:12] = struct.pack(">IBBBBI", 1, 50, 192, 18, 18, 720)

    def put(offset, width, value):
        header[offset : offset + width] = str(value).rjust(width).encode()

    put(180, 6, lines)
    put(186, 6, record_length)
    put(236, 8, lines)
    put(248, 8, pixels)
    header[428:432] = b"IU2 "

    body = bytearray()
    for index in range(lines):
        record = bytearray(record_length)
        record[0:12] = struct.pack(">IBBBBI", index + 2, 50, 11, 18, 20, record_length)
        record[12:16] = struct.pack(">I", index + 1)
        record[36:48] = struct.pack(">III", 2020, 1, 1000 * index)
        record[48:50] = struct.pack(">H", 1)
        samples = range(index * pixels, (index + 1) * pixels)
        record[192:] = struct.pack(f">{pixels}H", *samples)
        body += record

    return bytes(header + body)


def pixels_of(group):
    return np.asarray(group["data"].data[(slice(None), slice(None))])


def run_tool(*args):
    # same interpreter and environment (PYTHONPATH) as this demo
    return subprocess.run(
        [sys.executable, "-m", "ceos_alos2.sar_image", *map(str, args)],
        capture_output=True,
        text=True,
    )


def main():
    with tempfile.TemporaryDirectory() as tmp:
        tmp = pathlib.Path(tmp)
        product = tmp / "product"
        product.mkdir()
        # keep the demo away from the real user cache directory
        caching.path.cache_root = tmp / "user-cache"

        image = product / IMAGE_NAME
        image.write_bytes(make_image())
        index = product / f"{IMAGE_NAME}.index"
        mapper = fsspec.get_mapper(product.as_uri())

        reference = pixels_of(open_image(mapper, IMAGE_NAME, use_cache=False, records_per_chunk=2))

        result = run_tool(image)
        if result.returncode != 0 or not index.is_file():
            print("UNEXPECTED: tool failed", result.returncode, result.stderr)
            return 1

        # whatever is printed, the index itself must be usable
        cached = pixels_of(open_image(mapper, IMAGE_NAME, use_cache=True, records_per_chunk=2))
        if not np.array_equal(cached, reference):
            print("UNEXPECTED: cached open differs")
            return 1

        report = result.stdout.strip()
        index.unlink()

        quiet = run_tool("--quiet", image)
        accepts_quiet = quiet.returncode == 0 and index.is_file() and quiet.stdout == ""

    if report == "" and not accepts_quiet:
        print("OLD")
        return 0
    elif report == f"created cache file: {index}" and accepts_quiet:
        print("NEW")
        return 0

    print("UNEXPECTED", repr(report), accepts_quiet)
    return 1


if __name__ == "__main__":
    sys.exit(main())
