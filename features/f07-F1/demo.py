"""F1 demo: `ceos_alos2.utils.parse_bytes` rejects negative byte sizes.

Run as: cd <checkout> && PYTHONPATH=<checkout> /venv/bin/python demo.py
Prints OLD on the unmodified tree, NEW with F1 applied. Touches no files.
"""

import sys

from ceos_alos2.utils import parse_bytes


def probe(value):
    try:
        return ("value", parse_bytes(value))
    except ValueError as e:
        return ("ValueError", str(e))


def main():
    # unchanged behaviour (both trees): everything the test-suite pins down
    assert parse_bytes("100 MB") == 100_000_000
    assert parse_bytes("1kiB") == 1024
    assert parse_bytes("0B") == 0
    assert parse_bytes(123) == 123

    results = [probe("-5 kB"), probe("-1"), probe(-3)]

    if results == [("value", -5000), ("value", -1), ("value", -3)]:
        print("OLD")
        return 0
    if all(kind == "ValueError" and "must not be negative" in msg for kind, msg in results):
        print("NEW")
        return 0

    print("UNEXPECTED", results)
    return 1


if __name__ == "__main__":
    sys.exit(main())
