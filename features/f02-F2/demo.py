"""F2 demo: is the user told when header and records of an image disagree?

The synthetic image below declares 5 lines in its file descriptor but
contains (and announces) only 3 data records. Prints ``OLD`` on the unmodified
tree (opened silently) and ``NEW`` with the change applied (opened with an
``InconsistentImageWarning``). A consistent image opens silently on both.

Everything lives in fsspec's in-memory filesystem and is removed at the end.
"""

import struct
import sys
import uuid
import warnings

import fsspec
from construct import Struct

from ceos_alos2 import sar_image
from ceos_alos2.sar_image.file_descriptor import file_descriptor_record

NAME = "IMG-HH-ALOS2290760600-191011-WWDR1.5RUA"


def build_descriptor(values):
    """720-byte SAR image file descriptor; unspecified text fields stay blank"""

    def emit(struct_):
        out = b""
        for sc in struct_.subcons:
            inner = getattr(sc, "subcon", None)
            if sc.name == "preamble":
                out += struct.pack(">IBBBBI", 1, 50, 192, 18, 18, 720)
            elif isinstance(inner, Struct):
                out += emit(inner)
            else:
                size = sc.sizeof()
                value = values.get(sc.name, "")
                text = str(value)
                text = text.rjust(size) if isinstance(value, int) else text.ljust(size)
                out += text.encode("ascii")
        return out

    content = emit(file_descriptor_record)
    assert len(content) == 720, len(content)
    return content


def build_image(n_records, n_pixels, declared_lines):
    prefix_size = 192
    record_length = prefix_size + 2 * n_pixels
    header = build_descriptor(
        {
            "number_of_sar_data_records": n_records,
            "sar_data_record_length": record_length,
            "number_of_lines_per_dataset": declared_lines,
            "number_of_data_groups_per_line": n_pixels,
            "interleaving_id": "BSQ",
            "sar_data_format_type_code": "IU2",
        }
    )
    records = []
    for line in range(n_records):
        prefix = bytearray(prefix_size)
        prefix[0:12] = struct.pack(">IBBBBI", line + 2, 50, 11, 18, 20, record_length)
        prefix[12:16] = struct.pack(">I", line + 1)
        prefix[36:48] = struct.pack(">III", 2019, 284, 1000 * line)
        prefix[48:50] = struct.pack(">H", 1)
        pixels = struct.pack(f">{n_pixels}H", *(line * n_pixels + p for p in range(n_pixels)))
        records.append(bytes(prefix) + pixels)
    return header + b"".join(records)


def open_recording_warnings(mapper):
    with warnings.catch_warnings(record=True) as caught:
        warnings.simplefilter("always")
        group = sar_image.open_image(mapper, NAME, use_cache=False, records_per_chunk=2)

    return group, caught


def main():
    fs = fsspec.filesystem("memory")
    root = f"/f2-demo-{uuid.uuid4().hex}"
    try:
        # consistent image: no warning on either tree
        fs.pipe_file(f"{root}/good/{NAME}", build_image(3, 4, declared_lines=3))
        group, caught = open_recording_warnings(fsspec.get_mapper(f"memory://{root}/good"))
        assert group["data"].data.shape == (3, 4)
        assert not caught, [str(w.message) for w in caught]

        # 3 records, but the descriptor claims 5 lines
        fs.pipe_file(f"{root}/bad/{NAME}", build_image(3, 4, declared_lines=5))
        group, caught = open_recording_warnings(fsspec.get_mapper(f"memory://{root}/bad"))
    finally:
        if fs.exists(root):
            fs.rm(root, recursive=True)

    # the returned group is the same on both trees
    assert group["data"].data.shape == (5, 4)
    assert len(group["data"].data.byte_ranges) == 3
    assert list(group["rows"].data) == [1, 2, 3]

    if not caught:
        print("OLD")
        return 0

    if (
        len(caught) == 1
        and caught[0].category.__name__ == "InconsistentImageWarning"
        and issubclass(caught[0].category, UserWarning)
        and "declares 5 lines" in str(caught[0].message)
        and "contains 3 data records" in str(caught[0].message)
        and NAME in str(caught[0].message)
    ):
        print("NEW")
        return 0

    print("UNEXPECTED:", [f"{w.category.__name__}: {w.message}" for w in caught])
    return 1


if __name__ == "__main__":
    sys.exit(main())
