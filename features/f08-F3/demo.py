"""F3 demo: which exception class reports a product without `summary.txt`?

Prints OLD for a plain `OSError`, NEW for its subclass `FileNotFoundError`
(the class already used for a missing volume directory, leader or image file).
"""

import sys
import uuid

import fsspec

from ceos_alos2.summary import open_summary

root = f"memory://f3-demo-{uuid.uuid4().hex}"
mapper = fsspec.get_mapper(root)
mapper["VOL-ALOS2000000000-200229-FBDR1.5RUA"] = b"not relevant"
try:
    try:
        open_summary(mapper, "summary.txt")
    except OSError as e:
        error = e
    else:
        print("no error for a missing summary file")
        sys.exit(1)
finally:
    mapper.clear()

if "Cannot find the summary file (`summary.txt`)" not in str(error):
    print("unexpected message:", error)
    sys.exit(1)

if type(error) is OSError:
    print("OLD")
elif type(error) is FileNotFoundError:
    print("NEW")
else:
    print("unexpected exception class:", type(error))
    sys.exit(1)
