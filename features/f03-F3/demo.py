"""F3 demo: the index next to the image is fetched with a single request.

Prints OLD on the unmodified tree (existence check, then read) and NEW with F3
applied (read only).
"""

import pathlib
import struct
import sys
import tempfile

import fsspec
import numpy as np

from ceos_alos2.sar_image import caching, open_image

IMAGE_NAME = "IMG-HH-ALOS2014410550-140829-UBSR1.5GUD"


def make_image(lines=3, pixels=4):
    """minimal level 1.5 (IU2, 192 byte prefix) image file"""
    record_length = 192 + 2 * pixels
    header = bytearray(b" " * 720)
    header[0:12] = struct.pack(">IBBBBI", 1, 50, 192, 18, 18, 720)

    def put(offset, width, value):
        header[offset : offset + width] = str(value).rjust(width).encode()

    put(180, 6, lines)
    put(186, 6, record_length)
    put(236, 8, lines)
    put(248, 8, pixels)
    header[428:432] = b"IU2 "

    body = bytearray()
    for index in range(lines):
        record = bytearray(record_length)
        record[0:12] = struct.pack(">IBBBBI", index + 2, 50, 11, 18, 20, record_length)
        record[12:16] = struct.pack(">I", index + 1)
        record[36:48] = struct.pack(">III", 2020, 1, 1000 * index)
        record[48:50] = struct.pack(">H", 1)
        samples = range(index * pixels, (index + 1) * pixels)
        record[192:] = struct.pack(f">{pixels}H", *samples)
        body += record

    return bytes(header + body)


def pixels_of(group):
    return np.asarray(group["data"].data[(slice(None), slice(None))])


class Recorder:
    """filesystem proxy that records the calls made on it"""

    def __init__(self, fs):
        self._fs = fs
        self.calls = []

    def __getattr__(self, name):
        attr = getattr(self._fs, name)
        if not callable(attr) or name.startswith("_"):
            return attr

        def wrapper(*args, **kwargs):
            target = args[0] if args and isinstance(args[0], str) else None
            self.calls.append((name, target))
            return attr(*args, **kwargs)

        return wrapper

    def index_requests(self):
        return [name for name, target in self.calls if target and target.endswith(".index")]


def main():
    with tempfile.TemporaryDirectory() as tmp:
        tmp = pathlib.Path(tmp)
        product = tmp / "product"
        product.mkdir()
        # keep the demo away from the real user cache directory
        caching.path.cache_root = tmp / "user-cache"

        (product / IMAGE_NAME).write_bytes(make_image())
        index = product / f"{IMAGE_NAME}.index"

        plain = fsspec.get_mapper(product.as_uri())
        uncached = open_image(plain, IMAGE_NAME, use_cache=False, records_per_chunk=2)
        reference = pixels_of(uncached)

        # 1. no index: how is its absence detected?
        mapper = fsspec.get_mapper(product.as_uri())
        mapper.fs = recorder = Recorder(mapper.fs)
        try:
            caching.read_cache(mapper, IMAGE_NAME, records_per_chunk=2)
        except caching.CachingError:
            missing = recorder.index_requests()
        else:
            print("UNEXPECTED: found a cache")
            return 1

        # 2. index next to the image: how many requests does reading it take?
        index.write_text(caching.encode(uncached))
        recorder.calls.clear()
        group = caching.read_cache(mapper, IMAGE_NAME, records_per_chunk=2)
        present = recorder.index_requests()

        if not np.array_equal(pixels_of(group), reference):
            print("UNEXPECTED: cached open differs")
            return 1
        if index.read_text() != caching.encode(uncached) or len(list(product.iterdir())) != 2:
            print("UNEXPECTED: product directory modified")
            return 1

    if (missing, present) == (["isfile"], ["isfile", "cat"]):
        print("OLD")
        return 0
    elif (missing, present) == (["cat"], ["cat"]):
        print("NEW")
        return 0

    print("UNEXPECTED", missing, present)
    return 1


if __name__ == "__main__":
    sys.exit(main())
