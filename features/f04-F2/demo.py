"""F2 demo: the error group raised for malformed summary lines.

Run as ``cd <checkout> && PYTHONPATH=<checkout> /venv/bin/python demo.py``.
Prints ``OLD`` on the unmodified tree (a bare ``ExceptionGroup``) and ``NEW``
with the change applied (``SummaryParsingError``, a subclass of
``ExceptionGroup`` exposing the offending line numbers as ``linenos``).
"""

import pathlib
import sys
import tempfile

import ceos_alos2

try:
    ExceptionGroup
except NameError:  # python < 3.11
    from exceptiongroup import ExceptionGroup

lines = [
    'Scs_SceneShift="0"',
    'Scs_SceneID"ALOS2290760600-191011"',  # line 01: no `=`
    'Pds_ResamplingMethod="NN"',
    'PdsProductID="WWDR1.1__D"',  # line 03: no `_`
    'Lbi_Sensor="SAR"',
]
expected_messages = ["line 01: invalid line", "line 03: invalid line"]


def main():
    with tempfile.TemporaryDirectory() as product_dir:
        pathlib.Path(product_dir, "summary.txt").write_text("\n".join(lines) + "\n")

        try:
            ceos_alos2.open_alos2(product_dir, backend_options={"use_cache": False})
        except ExceptionGroup as e:
            error = e
        else:
            print("malformed summary was accepted")
            return 1

    # unchanged by the patch: one group, same message, same leaves
    if error.message != "failed to parse the summary":
        print(f"unexpected group message: {error.message}")
        return 1
    if [type(e) for e in error.exceptions] != [ValueError, ValueError] or [
        e.args[0] for e in error.exceptions
    ] != expected_messages:
        print(f"unexpected leaf exceptions: {error.exceptions!r}")
        return 1

    if type(error) is ExceptionGroup and not hasattr(error, "linenos"):
        print("OLD")
        return 0

    if (
        type(error).__name__ == "SummaryParsingError"
        and error.linenos == (1, 3)
        and [e.lineno for e in error.exceptions] == [1, 3]
    ):
        # splitting keeps the class
        match, rest = error.split(lambda e: getattr(e, "lineno", None) == 3)
        if type(match) is type(error) and match.linenos == (3,) and rest.linenos == (1,):
            print("NEW")
            return 0

    print(f"unexpected error group: {error!r}")
    return 1


if __name__ == "__main__":
    sys.exit(main())
