"""F2 demo: is the decision to ignore a torn cache file reported via `logging`?

Prints OLD when nothing is logged, NEW when a WARNING record is emitted by the
`ceos_alos2.sar_image.caching` logger (the raised exception is the same).
"""

import logging
import sys
import uuid

import fsspec

from ceos_alos2.sar_image import caching

records = []


class Collector(logging.Handler):
    def emit(self, record):
        records.append(record)


handler = Collector(level=logging.DEBUG)
package_logger = logging.getLogger("ceos_alos2")
previous_level = package_logger.level
package_logger.addHandler(handler)
package_logger.setLevel(logging.DEBUG)
package_logger.propagate = False

root = f"memory://f2-demo-{uuid.uuid4().hex}"
name = "IMG-HH-ALOS2000000000-000000-FBDR1.5RUA"
mapper = fsspec.get_mapper(root)
try:
    # a cache file next to the image whose writer was interrupted
    mapper[f"{name}.index"] = b'{"__type__": "group", "url": null, "data": {"v": {"__type__"'

    try:
        caching.read_cache(mapper, name, records_per_chunk=4)
    except caching.CachingError as e:
        error = e
    else:
        print("a torn cache file was accepted")
        sys.exit(1)

    if not str(error).startswith("invalid cache"):
        print("unexpected error:", error)
        sys.exit(1)
finally:
    mapper.clear()
    package_logger.removeHandler(handler)
    package_logger.setLevel(previous_level)
    package_logger.propagate = True

warnings_ = [
    r
    for r in records
    if r.levelno == logging.WARNING and r.name == "ceos_alos2.sar_image.caching"
]
if not records:
    print("OLD")
elif len(warnings_) == 1 and f"{name}.index" in warnings_[0].getMessage():
    print("NEW")
else:
    print("unexpected log records:", [r.getMessage() for r in records])
    sys.exit(1)
