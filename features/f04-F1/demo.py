"""F1 demo: which exception class reports a missing ``summary.txt``?

Run as ``cd <checkout> && PYTHONPATH=<checkout> /venv/bin/python demo.py``.
Prints ``OLD`` on the unmodified tree (plain ``OSError``) and ``NEW`` with the
change applied (``FileNotFoundError``, a subclass of ``OSError``).
"""

import sys
import tempfile

import ceos_alos2


def main():
    with tempfile.TemporaryDirectory() as product_dir:
        # an empty directory: no summary.txt, no volume directory, nothing
        try:
            ceos_alos2.open_alos2(product_dir, backend_options={"use_cache": False})
        except OSError as e:
            if "Cannot find the summary file" not in str(e):
                print(f"unexpected message: {e}")
                return 1
            if type(e) is FileNotFoundError:
                print("NEW")
                return 0
            if type(e) is OSError:
                print("OLD")
                return 0
            print(f"unexpected exception class: {type(e).__name__}")
            return 1
        else:
            print("opening an empty directory did not fail")
            return 1


if __name__ == "__main__":
    sys.exit(main())
