"""F3 demo: scene ids dated before the launch of ALOS-2.

Run as ``cd <checkout> && PYTHONPATH=<checkout> /venv/bin/python demo.py``.
Prints ``OLD`` on the unmodified tree (decodes silently) and ``NEW`` with the
change applied (decodes to exactly the same values and additionally emits a
``SuspiciousDateWarning``). A scene id dated after the launch is silent in both.
"""

import datetime
import sys
import warnings

from ceos_alos2 import decoders, summary

early = "IMG-HH-ALOS2001230750-140101-FBSR1.1__A"  # 2014-01-01, launch was 2014-05-24
late = "IMG-HH-ALOS2290760600-191011-FBSR1.1__A"

expected_early = {
    "filetype": "IMG",
    "polarization": "HH",
    "mission_name": "ALOS2",
    "orbit_accumulation": "00123",
    "scene_frame": "0750",
    "date": datetime.datetime(2014, 1, 1),
    "observation_mode": "fine mode single polarization",
    "observation_direction": "right looking",
    "processing_level": "level 1.1",
    "processing_option": "not specified",
    "map_projection": "not specified",
    "orbit_direction": "ascending",
}


def decode(fname):
    with warnings.catch_warnings(record=True) as caught:
        warnings.simplefilter("always")
        decoded = decoders.decode_filename(fname)
        scene_spec = summary.transform_scene_spec({"SceneID": fname[7:28]})
    return decoded, scene_spec.attrs, caught


def main():
    decoded, attrs, caught_early = decode(early)
    if decoded != expected_early or attrs["date"] != "2014-01-01":
        print(f"unexpected decoding result: {decoded!r} / {attrs!r}")
        return 1

    decoded, attrs, caught_late = decode(late)
    if decoded["date"] != datetime.datetime(2019, 10, 11) or attrs["date"] != "2019-10-11":
        print(f"unexpected decoding result: {decoded!r} / {attrs!r}")
        return 1
    if caught_late:
        print(f"unexpected warnings: {[str(w.message) for w in caught_late]}")
        return 1

    if not caught_early:
        print("OLD")
        return 0

    categories = {w.category.__name__ for w in caught_early}
    messages = [str(w.message) for w in caught_early]
    if (
        categories == {"SuspiciousDateWarning"}
        and len(caught_early) == 2  # file name and summary entry
        and all("2014-01-01 predates the launch of ALOS2" in m for m in messages)
        and all(issubclass(w.category, UserWarning) for w in caught_early)
    ):
        print("NEW")
        return 0

    print(f"unexpected warnings: {messages}")
    return 1


if __name__ == "__main__":
    sys.exit(main())
