"""F3 demo: how does ``open_image`` treat missing / non-positive request sizes?

On the unmodified tree, ``records_per_chunk=None`` (the default of the
function's own signature) fails with a ``TypeError`` as soon as the image has
to be parsed, ``0`` fails with a ``ZeroDivisionError`` and negative values
silently produce an image group without any lines. With the change applied,
``None`` means "1024 records per request" and non-positive integers are
rejected up front with a ``ValueError`` naming the option.

Prints ``OLD`` on the unmodified tree and ``NEW`` with the change applied.
Positive request sizes behave identically on both.

Everything lives in fsspec's in-memory filesystem and is removed at the end.
"""

import struct
import sys
import uuid

import fsspec
import numpy as np
from construct import Struct

from ceos_alos2 import sar_image
from ceos_alos2.sar_image.file_descriptor import file_descriptor_record

NAME = "IMG-HH-ALOS2290760600-191011-WWDR1.5RUA"


def build_descriptor(values):
    """720-byte SAR image file descriptor; unspecified text fields stay blank"""

    def emit(struct_):
        out = b""
        for sc in struct_.subcons:
            inner = getattr(sc, "subcon", None)
            if sc.name == "preamble":
                out += struct.pack(">IBBBBI", 1, 50, 192, 18, 18, 720)
            elif isinstance(inner, Struct):
                out += emit(inner)
            else:
                size = sc.sizeof()
                value = values.get(sc.name, "")
                text = str(value)
                text = text.rjust(size) if isinstance(value, int) else text.ljust(size)
                out += text.encode("ascii")
        return out

    content = emit(file_descriptor_record)
    assert len(content) == 720, len(content)
    return content


def build_image(n_records, n_pixels, declared_lines):
    prefix_size = 192
    record_length = prefix_size + 2 * n_pixels
    header = build_descriptor(
        {
            "number_of_sar_data_records": n_records,
            "sar_data_record_length": record_length,
            "number_of_lines_per_dataset": declared_lines,
            "number_of_data_groups_per_line": n_pixels,
            "interleaving_id": "BSQ",
            "sar_data_format_type_code": "IU2",
        }
    )
    records = []
    for line in range(n_records):
        prefix = bytearray(prefix_size)
        prefix[0:12] = struct.pack(">IBBBBI", line + 2, 50, 11, 18, 20, record_length)
        prefix[12:16] = struct.pack(">I", line + 1)
        prefix[36:48] = struct.pack(">III", 2019, 284, 1000 * line)
        prefix[48:50] = struct.pack(">H", 1)
        pixels = struct.pack(f">{n_pixels}H", *(line * n_pixels + p for p in range(n_pixels)))
        records.append(bytes(prefix) + pixels)
    return header + b"".join(records)


def attempt(mapper, **kwargs):
    try:
        return sar_image.open_image(mapper, NAME, use_cache=False, **kwargs)
    except Exception as e:
        return e


def main():
    fs = fsspec.filesystem("memory")
    root = f"/f3-demo-{uuid.uuid4().hex}"
    everything = (slice(None), slice(None))
    try:
        fs.pipe_file(f"{root}/{NAME}", build_image(3, 4, declared_lines=3))
        mapper = fsspec.get_mapper(f"memory://{root}")

        # positive request sizes: same on both trees
        reference = attempt(mapper, records_per_chunk=2)
        expected = np.arange(12, dtype="uint16").reshape(3, 4)
        assert reference["data"].data.records_per_chunk == 2
        np.testing.assert_array_equal(reference["data"].data[everything], expected)

        default = attempt(mapper)
        explicit_none = attempt(mapper, records_per_chunk=None)
        zero = attempt(mapper, records_per_chunk=0)
        negative = attempt(mapper, records_per_chunk=-2)

        if not isinstance(default, Exception):
            np.testing.assert_array_equal(default["data"].data[everything], expected)
    finally:
        if fs.exists(root):
            fs.rm(root, recursive=True)

    old = (
        isinstance(default, TypeError)
        and isinstance(explicit_none, TypeError)
        and isinstance(zero, ZeroDivisionError)
        and not isinstance(negative, Exception)
        and len(negative["data"].data.byte_ranges) == 0
    )
    new = (
        not isinstance(default, Exception)
        and not isinstance(explicit_none, Exception)
        and default["data"].data.records_per_chunk == 3  # min(1024, number of lines)
        and list(default["rows"].data) == [1, 2, 3]
        and isinstance(zero, ValueError)
        and "records_per_chunk must be a positive" in str(zero)
        and isinstance(negative, ValueError)
        and "got -2" in str(negative)
    )

    if old and not new:
        print("OLD")
        return 0
    if new and not old:
        print("NEW")
        return 0

    print("UNEXPECTED:", repr(default), repr(zero), repr(negative))
    return 1


if __name__ == "__main__":
    sys.exit(main())
