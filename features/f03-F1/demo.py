"""F1 demo: dedicated CachingError subclasses, foreign index files are ignored.

Prints OLD on the unmodified tree and NEW with F1 applied.
"""

import pathlib
import struct
import sys
import tempfile

import fsspec
import numpy as np

from ceos_alos2.sar_image import caching, open_image

IMAGE_NAME = "IMG-HH-ALOS2014410550-140829-UBSR1.5GUD"


def make_image(lines=3, pixels=4):
    """minimal level 1.5 (IU2, 192 byte prefix) image file"""
    record_length = 192 + 2 * pixels
    header = bytearray(b" " * 720)
    header[0:12] = struct.pack(">IBBBBI", 1, 50, 192, 18, 18, 720)

    def put(offset, width, value):
        header[offset : offset + width] = str(value).rjust(width).encode()

    put(180, 6, lines)
    put(186, 6, record_length)
    put(236, 8, lines)
    put(248, 8, pixels)
    header[428:432] = b"IU2 "

    body = bytearray()
    for index in range(lines):
        record = bytearray(record_length)
        record[0:12] = struct.pack(">IBBBBI", index + 2, 50, 11, 18, 20, record_length)
        record[12:16] = struct.pack(">I", index + 1)
        record[36:48] = struct.pack(">III", 2020, 1, 1000 * index)
        record[48:50] = struct.pack(">H", 1)
        samples = range(index * pixels, (index + 1) * pixels)
        record[192:] = struct.pack(f">{pixels}H", *samples)
        body += record

    return bytes(header + body)


def pixels_of(group):
    return np.asarray(group["data"].data[(slice(None), slice(None))])


def main():
    observations = []

    with tempfile.TemporaryDirectory() as tmp:
        tmp = pathlib.Path(tmp)
        product = tmp / "product"
        product.mkdir()
        # keep the demo away from the real user cache directory
        caching.path.cache_root = tmp / "user-cache"

        (product / IMAGE_NAME).write_bytes(make_image())
        mapper = fsspec.get_mapper(product.as_uri())

        reference = pixels_of(open_image(mapper, IMAGE_NAME, use_cache=False, records_per_chunk=2))

        # 1. no cache at all: which exception class reports that?
        try:
            caching.read_cache(mapper, IMAGE_NAME, records_per_chunk=2)
        except caching.CachingError as e:
            name = type(e).__name__
            observations.append({"CachingError": "OLD", "CacheNotFoundError": "NEW"}.get(name, name))

        # 2. a JSON file that is not one of ours sits where the index is expected
        (product / f"{IMAGE_NAME}.index").write_text('{"hello": "world"}')
        try:
            group = open_image(mapper, IMAGE_NAME, records_per_chunk=2)
        except AttributeError:
            observations.append("OLD")
        else:
            same = np.array_equal(pixels_of(group), reference)
            observations.append("NEW" if same else "WRONG")

    if len(set(observations)) != 1 or observations[0] not in ("OLD", "NEW"):
        print("UNEXPECTED", observations)
        return 1

    print(observations[0])
    return 0


if __name__ == "__main__":
    sys.exit(main())
