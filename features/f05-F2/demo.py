"""F2 demo: a truncated SAR leader raises a dedicated, descriptive exception.

Run as: cd <checkout> && PYTHONPATH=<checkout> /venv/bin/python demo.py
Prints OLD on the unmodified tree, NEW with the F2 patch applied.

Both versions raise (a subclass of) construct.StreamError for a leader file
that is cut short; the patched version raises the new subclass
``ceos_alos2.sar_leader.TruncatedLeaderError`` that knows the file name, the
available size and the field that could not be read.
"""
import struct
import sys
import uuid

import construct
import fsspec

import ceos_alos2.sar_leader as sar_leader


def truncated_leader():
    # a file descriptor record (720 bytes, blank except for the preamble and the
    # number of map projection records) followed by the first 300 bytes of a
    # dataset summary record that should be 4096 bytes long
    descriptor = bytearray(b" " * 720)
    descriptor[:12] = struct.pack(">IBBBBI", 1, 11, 192, 18, 18, 720)
    descriptor[192:198] = b"     0"  # number of map projection records
    summary = bytearray(b" " * 300)
    summary[:12] = struct.pack(">IBBBBI", 2, 18, 10, 18, 20, 4096)

    return bytes(descriptor + summary)


def main():
    mapper = fsspec.get_mapper(f"memory://f2-demo-{uuid.uuid4().hex}")
    name = "LED-ALOS2000000000-200229-UBSR1.1__D"
    mapper[name] = truncated_leader()

    try:
        try:
            sar_leader.open_sar_leader(mapper, name)
        except construct.StreamError as e:  # raised by both versions
            error = e
        else:
            print("UNEXPECTED: no error raised")
            return 1
    finally:
        mapper.clear()

    print(f"raised: {type(error).__module__}.{type(error).__qualname__}")
    print(f"message: {error}")

    new_class = getattr(sar_leader, "TruncatedLeaderError", None)
    if new_class is None:
        if type(error) is not construct.StreamError:
            print("UNEXPECTED exception type")
            return 1
        print("OLD")
        return 0

    if not isinstance(error, new_class):
        print("UNEXPECTED exception type")
        return 1
    if error.filename != name or error.size != 1020 or not error.field.startswith("dataset_summary"):
        print(f"UNEXPECTED details: {error.filename!r}, {error.size!r}, {error.field!r}")
        return 1
    print(f"details: filename={error.filename!r} size={error.size} field={error.field!r}")
    print("NEW")
    return 0


if __name__ == "__main__":
    sys.exit(main())
