"""F1 demo: how many bytes does loading a single image line request?

Prints OLD if the whole chunk (all `records_per_chunk` lines) is requested,
NEW if only the bytes of the selected line are requested.

Everything lives in memory: nothing is written to disk, nothing to clean up.
"""

import sys

import numpy as np

from ceos_alos2.array import Array


class RecordingFile:
    def __init__(self, content, requests):
        self.content = content
        self.requests = requests
        self.position = 0

    def __enter__(self):
        return self

    def __exit__(self, *exc_info):
        return False

    def seek(self, position, whence=0):
        self.position = position
        return position

    def read(self, size=-1):
        stop = len(self.content) if size < 0 else self.position + size
        data = self.content[self.position : stop]
        self.requests.append((self.position, len(data)))
        self.position += len(data)
        return data


class RecordingFileSystem:
    """minimal stand-in for a fsspec filesystem that records read requests"""

    def __init__(self, content):
        self.content = content
        self.requests = []

    def open(self, url, mode="rb"):
        return RecordingFile(self.content, self.requests)


def main():
    n_lines, n_pixels, prefix = 4, 5, 192
    data = np.arange(n_lines * n_pixels, dtype="uint16").reshape(n_lines, n_pixels)

    content = bytearray(b"\xff" * 720)
    byte_ranges = []
    for line in data.astype(">u2"):
        content += b"\xee" * prefix
        start = len(content)
        content += line.tobytes()
        byte_ranges.append((start, len(content)))

    fs = RecordingFileSystem(bytes(content))
    arr = Array(
        fs=fs,
        url="IMG-HH-ALOS2000000000-200101-UBSR1.5RUD",
        byte_ranges=byte_ranges,
        shape=data.shape,
        dtype="uint16",
        type_code="IU2",
        records_per_chunk=n_lines,
    )

    loaded = arr[(slice(1, 2), slice(None))]
    if not np.array_equal(loaded, data[1:2]):
        print("wrong values", file=sys.stderr)
        return 1

    chunk = (byte_ranges[0][0], byte_ranges[-1][1] - byte_ranges[0][0])
    line = (byte_ranges[1][0], byte_ranges[1][1] - byte_ranges[1][0])

    if fs.requests == [chunk]:
        print("OLD")
    elif fs.requests == [line]:
        print("NEW")
    else:
        print(f"unexpected requests: {fs.requests}", file=sys.stderr)
        return 1

    return 0


if __name__ == "__main__":
    sys.exit(main())
