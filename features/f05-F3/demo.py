"""F3 demo: ``open_sar_leader`` can optionally return facility related data 1-4.

Run as: cd <checkout> && PYTHONPATH=<checkout> /venv/bin/python demo.py
Prints OLD on the unmodified tree, NEW with the F3 patch applied.

The demo builds a small synthetic (mostly blank) SAR leader in an in-memory
filesystem, opens it the usual way and then asks for the facility related
data records, which the unmodified reader can not return.
"""
import struct
import sys
import uuid

import fsspec

from ceos_alos2.sar_leader import open_sar_leader
from ceos_alos2.sar_leader import structure as S
from ceos_alos2.sar_leader.file_descriptor import file_descriptor_record


def _subcons(con):
    while not hasattr(con, "subcons"):
        con = con.subcon
    return con.subcons


def put(buf, con, dotted, text):
    """write ``text`` into the (fixed-position) field ``dotted`` of a record"""
    offset = 0
    for part in dotted.split("."):
        for sub in _subcons(con):
            if sub.name == part:
                con = sub
                break
            offset += sub.sizeof()
        else:
            raise KeyError(dotted)
    size = con.sizeof()
    buf[offset : offset + size] = text.ljust(size).encode("ascii")[:size]


def record(length):
    buf = bytearray(b" " * length)
    buf[:12] = struct.pack(">IBBBBI", 1, 18, 10, 18, 20, length)
    return buf


def build_leader(payloads):
    descriptor = record(720)
    put(descriptor, file_descriptor_record, "map_projection.number_of_records", "     0")

    summary = record(S.dataset_summary_record.sizeof())
    put(summary, S.dataset_summary_record, "scene_id", "ALOS2000000000-200229")
    put(summary, S.dataset_summary_record, "scene_center_time", "20200229120000000")
    for name in [
        "base_band_conversion_flag",
        "range_compression_flag",
        "echo_tracker_status",
        "clutter_lock_applied_flag",
        "auto_focusing_applied_flag",
    ]:
        put(summary, S.dataset_summary_record, name, "YES")
    put(summary, S.dataset_summary_record, "weighting_function_in_azimuth", "1")
    put(summary, S.dataset_summary_record, "weighting_function_in_range", "1")

    position = record(S.platform_position_record.sizeof())
    put(position, S.platform_position_record, "orbital_elements_designator", "2")
    put(position, S.platform_position_record, "datetime_of_first_point.date", "2020  02  29")
    put(position, S.platform_position_record, "datetime_of_first_point.day_of_year", "  60")
    put(position, S.platform_position_record, "datetime_of_first_point.seconds_of_day", "43200.0")
    put(position, S.platform_position_record, "occurrence_flag_of_a_leap_second", "0")

    attitude = record(12 + 4 + 120 + 20)  # one attitude point
    attitude[12:16] = b"   1"
    attitude[16:28] = b"  60" + b"43200000"

    radiometric = record(S.radiometric_data_record.sizeof())

    n_channels = 1
    quality = record(
        12 + 4 + 4 + 6 + 4 + 12 * 16 + 512 + 6 * 16 + n_channels * 32 + 534 + (8 - n_channels) * 32
    )
    quality[26:30] = b"   1"

    facilities = []
    for number, payload in enumerate(payloads, start=1):
        facility = record(12 + 4 + 50 + len(payload))
        facility[12:16] = str(number).rjust(4).encode("ascii")
        facility[66:] = payload.encode("ascii")
        facilities.append(facility)

    facility5 = record(S.facility_related_data_5_record.sizeof())
    facility5[12:16] = b"   5"

    parts = [descriptor, summary, position, attitude, radiometric, quality, *facilities, facility5]
    return b"".join(bytes(part) for part in parts)


def main():
    payloads = ["dummy", "ephemeris: 1 2 3", "time errors: none", "coordinate conversion: a=1, b=2"]

    mapper = fsspec.get_mapper(f"memory://f3-demo-{uuid.uuid4().hex}")
    name = "LED-ALOS2000000000-200229-UBSR1.1__D"
    mapper[name] = build_leader(payloads)

    try:
        default = open_sar_leader(mapper, name)
        try:
            extended = open_sar_leader(mapper, name, include_facility_data=True)
        except TypeError as e:
            print(f"option not supported: {e}")
            extended = None
    finally:
        mapper.clear()

    expected_default = [
        "dataset_summary",
        "platform_position",
        "attitude",
        "radiometric_data",
        "data_quality_summary",
        "transformations",
    ]
    print("default groups:", list(default.groups))
    if list(default.groups) != expected_default:
        print("UNEXPECTED: the default result changed")
        return 1

    if extended is None:
        print("OLD")
        return 0

    print("groups with include_facility_data=True:", list(extended.groups))
    extra = {k: g for k, g in extended.groups.items() if k not in default.groups}
    if list(extra) != [f"facility_related_data_{n}" for n in (1, 2, 3, 4)]:
        print("UNEXPECTED extra groups")
        return 1
    for (key, group), payload in zip(extra.items(), payloads):
        print(f"  {key}: {group.attrs}")
        if group.attrs["raw_file_data"] != payload:
            print("UNEXPECTED payload")
            return 1
    if [g.attrs["data_type"] for g in extra.values()] != [
        "dummy data",
        "determined ephemeris",
        "time error information",
        "coordinate conversion information",
    ]:
        print("UNEXPECTED data types")
        return 1
    # everything else is the same as by default (comparing the reprs, since the
    # blank fields are NaN and thus not equal to themselves)
    for key in default.groups:
        if repr(extended.groups[key]) != repr(default.groups[key]):
            print(f"UNEXPECTED difference in {key}")
            return 1

    print("NEW")
    return 0


if __name__ == "__main__":
    sys.exit(main())
