"""F1 demo: a missing SAR leader is reported with OS-style error attributes.

Run as: cd <checkout> && PYTHONPATH=<checkout> /venv/bin/python demo.py
Prints OLD on the unmodified tree, NEW with the F1 patch applied.
"""
import errno
import sys
import uuid

import fsspec

from ceos_alos2.sar_leader import open_sar_leader


def main():
    root = f"memory://f1-demo-{uuid.uuid4().hex}"
    mapper = fsspec.get_mapper(root)
    # some unrelated file, so the "product directory" exists but has no leader
    mapper["summary.txt"] = b""
    name = "LED-ALOS2000000000-200229-UBSR1.1__D"

    try:
        try:
            open_sar_leader(mapper, name)
        except FileNotFoundError as e:  # promised by both versions
            error = e
        else:
            print("UNEXPECTED: no error raised")
            return 1
    finally:
        mapper.clear()

    if not isinstance(error, OSError) or "Cannot open" not in str(error):
        print(f"UNEXPECTED: {error!r}")
        return 1

    print(f"raised: {type(error).__name__}: {error}")
    print(f"errno={error.errno!r} filename={error.filename!r}")
    if error.errno == errno.ENOENT and error.filename == name:
        print("NEW")
    elif error.errno is None and error.filename is None:
        print("OLD")
    else:
        print("UNEXPECTED attribute combination")
        return 1
    return 0


if __name__ == "__main__":
    sys.exit(main())
