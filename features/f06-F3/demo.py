"""F3 demo: the top-level ``open`` accepts ``storage_options=None``.

Run as ``cd <checkout> && PYTHONPATH=<checkout> /venv/bin/python demo.py``.

An empty temporary directory is opened with ``backend_options={"storage_options": None}``:

- unmodified tree: ``None`` is splatted into ``fsspec.get_mapper`` and a ``TypeError``
  ("argument after ** must be a mapping") is raised before the product is even looked at
  ->  prints ``OLD``
- patched tree: ``None`` means "no additional options", so opening proceeds exactly as with
  ``{}`` and reports the missing ``summary.txt`` (``OSError``)  ->  prints ``NEW``

Omitting the option or passing ``{}`` behaves the same on both trees (checked as well), and
the caller's dictionaries are left untouched. The temporary directory is removed again.
"""

import copy
import inspect
import sys
import tempfile

from ceos_alos2 import io, open_alos2


def outcome(path, backend_options=None):
    kwargs = {} if backend_options is None else {"backend_options": backend_options}
    before = copy.deepcopy(backend_options)
    try:
        open_alos2(path, **kwargs)
    except Exception as e:
        result = e
    else:
        result = None
    assert backend_options == before, "option dictionary was mutated"
    return result


with tempfile.TemporaryDirectory() as root:
    # unchanged inputs: the empty directory is reported as an incomplete product
    for options in (None, {}, {"storage_options": {}}, {"storage_options": {"auto_mkdir": False}}):
        e = outcome(root, options)
        assert isinstance(e, OSError) and "summary" in str(e), (options, e)

    result = outcome(root, {"storage_options": None})

default = inspect.signature(io.open).parameters["storage_options"].default

if isinstance(result, TypeError) and default == {}:
    print("OLD")
    sys.exit(0)

if isinstance(result, OSError) and "summary" in str(result) and default is None:
    print("NEW")
    sys.exit(0)

print("UNEXPECTED:", repr(result), repr(default))
sys.exit(1)
