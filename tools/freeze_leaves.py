"""Dev-time only: derive vf/spec/leaves_{leader,volume,image}.json by probing the pinned (repaired) tree.

For every field of every record one product is parsed with only that field's bytes replaced; the leaves that change
are that field's leaves.  The result is validated by recomputing the expectation for several random products and then
REVIEWED BY HAND (see the overrides at the bottom) before it is committed as data.  Checks never run this.
"""
import json, random, sys, collections, copy
sys.path.insert(0, "/verif")
from vf import env
env.bootstrap()
import numpy as np
import fsspec
from vf import synth, gen, refdec, expect
import ceos_alos2.xarray as cx
from ceos_alos2.hierarchy import Group
from ceos_alos2.sar_leader.io import parse_data as led_parse
from ceos_alos2.sar_leader.metadata import transform_metadata as led_transform
from ceos_alos2.volume_directory.io import parse_data as vol_parse
from ceos_alos2.volume_directory.metadata import transform_record as vol_transform


def tree_of_leader(b):
    g = led_transform(led_parse(b))
    return cx.to_datatree(Group(path="/", url=None, data={"metadata": g}, attrs={}))


def tree_of_volume(b):
    g = vol_transform(vol_parse(b))
    return cx.to_datatree(Group(path="/", url=None, data={}, attrs=g.attrs))


def flat(tree):
    out, meta = {}, {}
    for node in tree.subtree:
        ds = node.to_dataset(inherit=False)
        for k, v in ds.attrs.items():
            out[(node.path, "@", k)] = v
        meta[node.path] = {"children": list(node.children)}
        for k, v in ds.variables.items():
            a = np.asarray(v.values)
            meta[(node.path, "#", k)] = {"dims": list(v.dims), "attrs": dict(v.attrs), "coord": k in ds.coords,
                                         "kind": a.dtype.kind, "shape": list(a.shape)}
            for idx, x in enumerate(a.reshape(-1).tolist()):
                out[(node.path, "#", k, idx)] = x
    return out, meta


def differs(a, b):
    if isinstance(a, float) and isinstance(b, float) and a != a and b != b:
        return False
    return a != b or type(a) is not type(b)


def probe(make_bytes, decode, parse, seeds=(11, 22, 33)):
    """-> (flatA, metaA, assign: leaf -> [sources], structural: [sources], unassigned sources)"""
    blobs = [make_bytes(random.Random(s)) for s in seeds]
    A = blobs[0]
    srcA = decode(A)
    ABS = dict(refdec.ABS)
    base, meta = flat(parse(A))
    assign = collections.defaultdict(list)
    structural, silent = [], []
    for S, (off, w, rec) in ABS.items():
        if ":preamble." in S or S.startswith("fac"):
            continue
        changed = None
        for other in blobs[1:]:
            if other[off:off + w] == A[off:off + w]:
                continue
            mod = A[:off] + other[off:off + w] + A[off + w:]
            try:
                f2, m2 = flat(parse(mod))
            except Exception as e:
                changed = "error"
                break
            keys = [k for k in set(base) | set(f2) if k not in base or k not in f2 or differs(base[k], f2[k])]
            if set(m2) != set(meta):
                changed = "error"
                break
            if keys:
                changed = keys
                break
        if not changed:
            # fields whose meaning is "zero / non-zero" or a code: try explicit alternatives
            f = synth.fields(rec)[[x["name"] for x in synth.fields(rec)].index(S.split(":")[-1])]
            alts = []
            if synth.base_kind(f) == "A_int":
                alts = [b"0".rjust(w), b"1".rjust(w)]
            elif synth.base_kind(f) in ("u8", "u16", "u32", "u64", "flag"):
                alts = [(0).to_bytes(w, "big"), (1).to_bytes(w, "big")]
            for alt in alts:
                if alt == A[off:off + w]:
                    continue
                try:
                    f2, m2 = flat(parse(A[:off] + alt + A[off + w:]))
                except Exception:
                    changed = "error"
                    break
                keys = [k for k in set(base) | set(f2) if k not in base or k not in f2 or differs(base[k], f2[k])]
                if set(m2) != set(meta):
                    changed = "error"
                    break
                if keys:
                    changed = keys
                    break
        if changed == "error":
            structural.append(S)
        elif not changed:
            silent.append(S)
        else:
            for k in changed:
                assign[k].append(S)
    return base, meta, assign, structural, silent, srcA


def field_of(S):
    rec = {"ds": "ds", "mp": "mp", "pp": "pp", "rad": "rad", "f5": "f5", "dqh": "dq_head", "dqg": "dq_geo", "dqc": "dq_cal",
           "dqm": "dq_mis", "att": "att_pt", "led_fd": "led_fd", "vd": "vd", "txt": "txt", "fp": "fp"}[S.split(":")[0]]
    if S.startswith("att:") and S.count(":") == 1:
        rec = "att_head"
    return synth.field(rec, S.split(":")[-1])


def infer(S, actual):
    f = field_of(S)
    kind = f["kind"]
    d = {}
    if kind == "enum":
        d["conv"] = "enum"
    elif kind == "A_float":
        d["conv"] = "float"
        if "factor" in f:
            d["scale"] = f["factor"]
    elif kind == "A_int":
        d["conv"] = "bool_int" if isinstance(actual, bool) else "int"
    elif kind == "A_str":
        d["conv"] = "text"
    elif kind == "A_complex":
        d["conv"] = "complex"
    elif kind == "flag":
        d["conv"] = "bool"
    elif kind.startswith("u"):
        d["conv"] = "uint_scaled" if "factor" in f else "uint"
        if "factor" in f:
            d["scale"] = f["factor"]
    else:
        d["conv"] = kind
    return d


def jsonable(x):
    if isinstance(x, (np.generic,)):
        return x.item()
    if isinstance(x, tuple):
        return list(x)
    return x


def build_nodes(base, meta, assign, when=()):
    nodes = {}
    for key, m in meta.items():
        if isinstance(key, str):
            nodes[key] = {"path": key, "when": list(when), "attrs": {}, "vars": {}, "children": m["children"]}
    problems = []
    for key, val in base.items():
        if key[1] == "@":
            path, _, name = key
            srcs = assign.get(key, [])
            if len(srcs) == 1:
                nodes[path]["attrs"][name] = dict(src=srcs[0], **infer(srcs[0], val))
            elif not srcs:
                nodes[path]["attrs"][name] = {"const": jsonable(val)}
            else:
                problems.append((key, srcs))
                nodes[path]["attrs"][name] = {"MANUAL": srcs}
    for key, m in meta.items():
        if isinstance(key, str):
            continue
        path, _, name = key
        n = int(np.prod(m["shape"])) if m["shape"] else 1
        per = [assign.get((path, "#", name, i), []) for i in range(n)]
        v = {"dims": m["dims"], "attrs": m["attrs"], "coord": m["coord"], "kind": m["kind"]}
        if all(len(p) == 1 for p in per):
            v["src"] = [p[0] for p in per]
            v.update(infer(per[0][0], base[(path, "#", name, 0)]))
            if len(m["shape"]) > 1:
                v["shape"] = m["shape"]
        elif all(len(p) == 0 for p in per):
            vals = [jsonable(base[(path, "#", name, i)]) for i in range(n)]
            v["const"] = np.array(vals, dtype=object).reshape(m["shape"]).tolist() if m["shape"] else vals[0]
        else:
            problems.append((key, per))
            v["MANUAL"] = per
        nodes[path]["vars"][name] = v
    return list(nodes.values()), problems


def generalise(nodes):
    """src lists over repeated records -> templates with symbolic counts"""
    import re
    for node in nodes:
        for v in node["vars"].values():
            srcs = v.get("src")
            if not isinstance(srcs, list) or not srcs:
                continue
            m = re.match(r"^(att|dqc|dqm):(\d+):(.*)$", srcs[0])
            if m and all(s == f"{m.group(1)}:{i}:{m.group(3)}" for i, s in enumerate(srcs)):
                v["src"] = {"template": f"{m.group(1)}:{{i}}:{m.group(3)}", "count": "n_att" if m.group(1) == "att" else "n_ch"}
    return nodes


if __name__ == "__main__":
    which = sys.argv[1] if len(sys.argv) > 1 else "leader"
    if which == "leader":
        allnodes, seen_paths = [], {}
        report = {}
        for desig in ("UTM-PROJECTION", "UPS-PROJECTION", "LCC-PROJECTION", "MER-PROJECTION"):
            mk = lambda r, d=desig: synth.leader_bytes(gen.full_leader(r, n_mp=1, n_att=2, att_len=16384, n_ch=2, fac_lens=[100, 200, 300, 400], designator=d)[0])
            base, meta, assign, structural, silent, srcA = probe(mk, refdec.leader, tree_of_leader)
            nodes, problems = build_nodes(base, meta, assign)
            nodes = generalise(nodes)
            report[desig] = {"structural": structural, "silent": silent, "problems": [(list(map(str, k)), p) for k, p in problems]}
            cls = desig.split("-")[0].lower()
            for n in nodes:
                is_mp = n["path"].startswith("/metadata/map_projection")
                is_proj = n["path"].startswith("/metadata/map_projection/projection")
                if n["path"] == "/metadata":
                    pass
                if is_proj:
                    n["when"] = [["n_mp>=", 1], ["designator", [cls]]]
                    allnodes.append(n)
                elif n["path"] not in seen_paths:
                    if is_mp:
                        n["when"] = [["n_mp>=", 1]]
                    seen_paths[n["path"]] = n
                    allnodes.append(n)
                else:
                    # identical across designators?
                    a, b = json.dumps(seen_paths[n["path"]], sort_keys=True, default=str), json.dumps(dict(n, when=seen_paths[n["path"]]["when"]), sort_keys=True, default=str)
                    if a != b and n["path"] != "/metadata/map_projection":
                        print("VARIES ACROSS DESIGNATORS:", n["path"])
        json.dump({"nodes": allnodes}, open("/verif/vf/spec/leaves_leader.raw.json", "w"), indent=1, ensure_ascii=False, default=str)
        json.dump(report, open("/tmp/work/leaves_leader.report.json", "w"), indent=1, default=str)
        for d, r in report.items():
            print(d, "structural", len(r["structural"]), "silent", len(r["silent"]), "problems", len(r["problems"]))
        print("nodes", len(allnodes))


def finalise_leader():
    d = json.load(open("/verif/vf/spec/leaves_leader.raw.json"))
    for n in d["nodes"]:
        n.pop("children", None)
        if n["path"] == "/metadata/dataset_summary":
            n["attrs"]["scene_center_time"] = {"src": "ds:scene_center_time", "conv": "datetime_compact"}
            for k in ("weighting_function_in_azimuth", "weighting_function_in_range"):
                assert n["attrs"][k] == {"const": "rectangle"}, n["attrs"][k]
                n["attrs"][k] = {"src": f"ds:{k}", "conv": "enum"}
        if n["path"] == "/metadata/data_quality_summary":
            assert n["attrs"]["number_of_channels"] == {"const": 2}
            n["attrs"]["number_of_channels"] = {"src": "dqh:number_of_channels", "conv": "int"}
        if n["path"] == "/metadata/platform_position":
            assert "MANUAL" in n["attrs"]["datetime_of_first_point"]
            n["attrs"]["datetime_of_first_point"] = {"srcs": ["pp:datetime_of_first_point.date", "pp:datetime_of_first_point.seconds_of_day"],
                                                     "conv": "pp_datetime"}
        if n["path"] in ("/metadata/attitude/attitude", "/metadata/attitude/rates"):
            t = n["vars"]["time"]
            assert "MANUAL" in t
            del t["MANUAL"]
            t["time"] = "attitude"
        assert "MANUAL" not in json.dumps(n), n["path"]
    json.dump(d, open("/verif/vf/spec/leaves_leader.json", "w"), indent=1, ensure_ascii=False, sort_keys=True)
    print("leaves_leader.json written:", len(d["nodes"]), "nodes,",
          sum(len(n["attrs"]) + len(n["vars"]) for n in d["nodes"]), "leaves")


def validate_leader(n=300):
    spec = expect.spec("leader")
    bad = 0
    for seed in range(n):
        rng = random.Random(1000 + seed)
        led, info = gen.full_leader(rng)
        b = synth.leader_bytes(led)
        tree = tree_of_leader(b)
        exp = expect.expected_region(spec, refdec.leader(b))
        problems = []
        got_paths = {nd.path for nd in tree.subtree}
        if got_paths != set(exp):
            problems.append(f"node sets differ: extra {sorted(got_paths - set(exp))} missing {sorted(set(exp) - got_paths)}")
        for path, e in exp.items():
            if path in got_paths:
                expect.compare_node(path, tree[path] if path != "/" else tree, e, problems)
        if problems:
            bad += 1
            if bad <= 5:
                print(seed, info, problems[:4])
    print("validated", n, "random leaders; with problems:", bad)


if __name__ == "__main__" and which == "leader":
    finalise_leader()
    validate_leader()


def tree_of_image(b, typ):
    from ceos_alos2.sar_image import open_image
    fs = fsspec.filesystem("memory")
    name = "IMG-HH-ALOS2014410750-140829-" + ("FBDR1.1__D" if typ == "C*8" else "FBDR1.5GUD")
    fs.pipe(f"/probe/{name}", b)
    g = open_image(fsspec.get_mapper("memory:///probe"), name, use_cache=False, records_per_chunk=2)
    g.data.pop("data")
    return cx.to_datatree(Group(path="/", url=None, data={"img": g}, attrs={}))


def field_of_img(S, rec):
    return synth.field("img_fd" if S.startswith("fd:") else rec, S.split(":")[-1])


def freeze_image():
    global field_of
    out = {}
    for typ in ("IU2", "C*8"):
        rec = synth.REC[typ][0]
        field_of_saved = field_of
        field_of = lambda S, rec=rec: field_of_img(S, rec)
        def mk(r, typ=typ):
            im, _ = gen.full_image(r, np.random.default_rng(r.randrange(10 ** 6)), typ, 2, 3, optional_header=15)
            # per-file constants must be constant inside a file but differ between the probe blobs
            return synth.image_bytes(im)
        base, meta, assign, structural, silent, srcA = probe(mk, refdec.image_sources, lambda b, typ=typ: tree_of_image(b, typ))
        nodes, problems = build_nodes(base, meta, assign)
        import re
        for n in nodes:
            for v in n["vars"].values():
                srcs = v.get("src")
                if isinstance(srcs, list) and srcs and re.match(r"^ln:0:", srcs[0]) and all(s == srcs[0].replace("ln:0:", f"ln:{i}:") for i, s in enumerate(srcs)):
                    v["src"] = {"template": srcs[0].replace("ln:0:", "ln:{i}:"), "count": "n_lines"}
        field_of = field_of_saved
        print(typ, "structural", structural, "problems", [(k, str(p)[:200]) for k, p in problems])
        sil = [s for s in silent if "spare" not in s and "blanks" not in s]
        print(typ, "silent", sil)
        out[typ] = {"nodes": [n for n in nodes if n["path"] == "/img"]}
    json.dump(out, open("/verif/vf/spec/leaves_image.raw.json", "w"), indent=1, ensure_ascii=False, default=str)


if __name__ == "__main__" and which == "image":
    freeze_image()


NESTED = {"elevation_angle_at_nadir_of_antenna": ["electronic", "mechanic"], "antenna_squint_angle": ["electronic", "mechanic"],
          "platform_velocity": ["x", "y", "z"], "platform_acceleration": ["x", "y", "z"], "platform_attitude": ["pitch", "roll", "yaw"]}
OPTIONAL = {"interleaving_id": ("fd:sar_related_data_in_the_record.interleaving_id", "text"),
            "valid_range": ("fd:prefix_suffix_data_locators.maximum_data_range_of_pixel", "valid_range"),
            "number_of_burst_data": ("fd:prefix_suffix_data_locators.number_of_burst_data", "int"),
            "number_of_lines_per_burst": ("fd:prefix_suffix_data_locators.number_of_lines_per_burst", "int"),
            "number_of_overlap_lines_with_adjacent_bursts": ("fd:scansar_burst_data_information.number_of_overlap_lines_with_adjacent_bursts", "int")}


def finalise_image():
    d = json.load(open("/verif/vf/spec/leaves_image.raw.json"))
    for typ, region in d.items():
        rec = synth.REC[typ][0]
        (n,) = region["nodes"]
        n.pop("children", None)
        n["path"] = "."
        for k, (src, conv) in OPTIONAL.items():
            assert k in n["attrs"], k
            n["attrs"][k] = {"src": src, "conv": conv, "optional": True}
        v = n["vars"]["sensor_acquisition_date"]
        assert v["conv"] == "ydms"
        v.pop("conv"); v.pop("src"); v["time"] = "ydms"
        if typ == "C*8":
            v = n["vars"]["sensor_acquisition_date_microseconds"]
            assert "MANUAL" in v
            v.pop("MANUAL"); v["time"] = "ydus"
            for name, subs in NESTED.items():
                v = n["vars"][name]
                assert "MANUAL" in v
                v.pop("MANUAL")
                v["nested"] = {}
                for sname in subs:
                    f = synth.field(rec, f"{name}.{sname}")
                    e = {"template": f"ln:{{i}}:{name}.{sname}", "conv": "uint_scaled" if "factor" in f else "uint", "units": f["meta"]["units"]}
                    if "factor" in f:
                        e["scale"] = f["factor"]
                    v["nested"][sname] = e
        assert "MANUAL" not in json.dumps(n), typ
    json.dump(d, open("/verif/vf/spec/leaves_image.json", "w"), indent=1, ensure_ascii=False, sort_keys=True)
    for typ, region in d.items():
        n = region["nodes"][0]
        print(typ, "attrs", sorted(n["attrs"]), "\n   vars", sorted(n["vars"]))


if __name__ == "__main__" and which == "image":
    finalise_image()
