#!/bin/bash
# tools/selftest_seeded.sh [ids...] : apply each seeded change to a scratch copy of /repo and run its property's quick check
# (VERIF_REPO=<copy>); prints one line per change: CAUGHT (exit 1 with a VIOLATION line) / MISSED (exit 0) / INCONCLUSIVE (exit 2)
cd "$(dirname "$0")/.."
HERE=$(pwd)
IDS=${@:-$(ls seeded)}
W=${VERIF_SELFTEST_DIR:-/tmp/work}/selftest_$$
mkdir -p "$(dirname $W)"
for id in $IDS; do
  prop=${id%%-*}
  rm -rf $W; cp -r /repo $W; (cd $W && git checkout -q -- . && git apply $HERE/seeded/$id/patch.diff) || { echo "$id PATCH-DOES-NOT-APPLY"; continue; }
  out=$(VERIF_REPO=$W timeout 1800 ./check $prop --tier quick 2>&1); rc=$?
  case $rc in 1) v=CAUGHT;; 0) v=MISSED;; 2) v=INCONCLUSIVE;; *) v="rc=$rc";; esac
  echo "$id $v $(echo "$out" | grep -A1 '^VIOLATION' | grep '^  case' | head -1 | cut -c1-200)"
done
rm -rf $W
