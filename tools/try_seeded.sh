#!/bin/bash
# tools/try_seeded.sh <dir with patch.diff+demo.py> <PROP> [more props...]  : confirm a seeded change and run checks against it
set -u
SRC=$1; shift
W=/tmp/work/seedtry_$$; rm -rf $W; cp -r /repo $W; cd $W && git checkout -q -- . 
echo "== demo on unpatched copy"; (cd $W && cp $SRC/demo.py . && PYTHONPATH=$W /venv/bin/python demo.py 2>&1 | tail -2; echo "exit=${PIPESTATUS[0]}")
git apply $SRC/patch.diff || { echo "PATCH DOES NOT APPLY"; rm -rf $W; exit 2; }
echo "== suite with patch"; /venv/bin/python -m pytest -q -p no:cacheprovider 2>&1 | grep -E "^(FAILED|ERROR)" | sed 's/ - .*//' | sort > /tmp/work/seed_fail.txt; diff <(grep -E "^(FAILED|ERROR)" /tmp/work/suite_base.txt | sed 's/ - .*//' | sort) /tmp/work/seed_fail.txt >/dev/null && echo "SAME-FAIL-SET" || echo "FAIL SET DIFFERS"; /venv/bin/python -m pytest -q -p no:cacheprovider 2>&1 | tail -1
echo "== demo with patch"; (PYTHONPATH=$W /venv/bin/python demo.py 2>&1 | tail -2; echo "exit=${PIPESTATUS[0]}")
cd /verif
for P in "$@"; do echo "== check $P against patched copy"; VERIF_REPO=$W ./check $P 2>&1 | grep -v "^KNOWN" | tail -3 | cut -c1-400; done
rm -rf $W
