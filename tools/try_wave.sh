#!/bin/bash
# tools/try_wave.sh <worktree dir> <PROP> [other props]: compact verdict for one seeded change
SRC=$1; shift
out=$(tools/try_seeded.sh $SRC "$@" 2>&1)
echo "--- $SRC"
echo "$out" | awk '/== demo on unpatched/{m="clean"} /== suite with patch/{m="suite"} /== demo with patch/{m="patched"} /== check/{m=$3} /^exit=/{print m": "$0} /SAME-FAIL-SET|FAIL SET DIFFERS|PATCH DOES NOT APPLY/{print} / (held|violated|inconclusive);/{print m": "substr($0,1,60)}'
echo "$out" | grep -A1 "^VIOLATION" | grep "^  case" | head -2 | cut -c1-260
