"""Dev-time only: produce vf/spec/layout.json from the pinned (repaired) tree."""
import json, sys
sys.path.insert(0, "/repo"); sys.path.insert(0, "/verif/tools")
from walk import table
from ceos_alos2.sar_leader import (dataset_summary, map_projection, platform_position, attitude,
                                   radiometric_data, data_quality_summary, facility_related_data, file_descriptor)
from ceos_alos2.sar_image import file_descriptor as ifd, signal_data, processed_data
from ceos_alos2.volume_directory import structure as V
from ceos_alos2.sar_trailer import file_descriptor as tfd

cons = dict(
    led_fd=file_descriptor.file_descriptor_record, ds=dataset_summary.dataset_summary_record,
    mp=map_projection.map_projection_record, pp=platform_position.platform_position_record,
    att_pt=attitude.attitude_point, rad=radiometric_data.radiometric_data_record,
    f5=facility_related_data.facility_related_data_5_record, img_fd=ifd.file_descriptor_record,
    sig=signal_data.signal_data_record, proc=processed_data.processed_data_record,
    vd=V.volume_descriptor, fp=V.file_descriptor, txt=V.text_record,
    dq_cal=data_quality_summary.calibration_uncertainty, dq_mis=data_quality_summary.misregistration_error,
    trl_img=tfd.low_res_image_size,
)
out = {}
for k, c in cons.items():
    fields, size = table(c)
    out[k] = {"size": size, "fields": fields}
# records with a dynamic middle: walk what can be walked
for k, c in dict(dq=data_quality_summary.data_quality_summary_record, trl_fd=tfd.file_descriptor_record,
                 att=attitude.attitude_record, fac=facility_related_data.facility_related_data_record).items():
    fields, size = table(c)
    out[k] = {"size_static_part": size, "fields": fields}
json.dump(out, open("/verif/vf/spec/layout.raw.json", "w"), indent=1, ensure_ascii=False)
for k, v in out.items():
    print(k, v.get("size", v.get("size_static_part")), len(v["fields"]))

# ---- final layout: unique names, dynamic records split into their static pieces
final = {}
def uniq(fields):
    seen = {}
    out = []
    for f in fields:
        if "dynamic" in f or "struct_meta" in f:
            continue
        n = f["name"]
        seen[n] = seen.get(n, 0) + 1
        f = dict(f)
        if seen[n] > 1:
            f["name"] = f"{n}~{seen[n]}"
        out.append(f)
    return out
def smeta(fields):
    return {f["name"]: f["struct_meta"] for f in fields if "struct_meta" in f}
for k in ("led_fd", "ds", "mp", "pp", "att_pt", "rad", "f5", "img_fd", "sig", "proc", "vd", "fp", "txt", "dq_cal", "dq_mis", "trl_img"):
    final[k] = {"size": out[k]["size"], "fields": uniq(out[k]["fields"]), "struct_meta": smeta(out[k]["fields"])}
dq = out["dq"]["fields"]
head = [f for f in dq if "off" in f and "dynamic" not in f and f["off"] < 222 and not f["name"].startswith("absolute_geometric")]
geo = [dict(f, off=f["off"] - 222) for f in dq if f["name"].startswith("absolute_geometric")]
final["dq_head"] = {"size": 222, "fields": uniq(head), "struct_meta": {}}
final["dq_geo"] = {"size": 96, "fields": uniq(geo), "struct_meta": {}}
final["trl_head"] = {"size": 496, "fields": uniq(out["trl_fd"]["fields"]), "struct_meta": {}}
final["att_head"] = {"size": 16, "fields": uniq(out["att"]["fields"]), "struct_meta": {}}
final["fac_head"] = {"size": 66, "fields": uniq(out["fac"]["fields"]), "struct_meta": {}}
for k, v in final.items():
    # sanity: fields tile the record exactly
    pos = 0
    for f in v["fields"]:
        assert f["off"] == pos, (k, f, pos)
        pos += f["width"]
    assert pos == v["size"], (k, pos, v["size"])
json.dump(final, open("/verif/vf/spec/layout.json", "w"), indent=1, ensure_ascii=False, sort_keys=True)
print("final", {k: (v["size"], len(v["fields"])) for k, v in final.items()})
