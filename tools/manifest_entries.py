add("C01", "exploration",
    "Every element of every loaded image is compared bit for bit with the sample an independent encoder wrote, over seeded products spanning sample type, geometry, bit patterns, filesystems and records_per_chunk classes, plus an exhaustive small block (lines x rpc). Held means: no mismatch on the executions produced.",
    "Trusted: CPython, NumPy, xarray, fsspec, my encoder/reference decoder and the frozen layout table (vf/spec/layout.json). Synthetic well-formed files only.",
    "reference-model monitor (independent encoder) + icontract contracts on the real read path", "DESIGN.md §4 C01")
add("C02", "exploration",
    "Every index expression of an exhaustive small-image block (all ints, slices incl. negative steps, masks, short arrays; every rpc) and seeded random expressions on larger images is applied to the lazy image, to an in-memory twin and to a NumPy-backed control backend under xarray's own lazy layer; shape, dims, coords, dtype and values (bitwise) or exception class must agree with the twin. Deviations that the control backend reproduces byte for byte are attributed to xarray (open known finding), everything else is a violation.",
    "Trusted: NumPy/xarray semantics on in-memory arrays (the twin), my sample decoder. Exhaustive only for the stated small domain.",
    "three-way differential monitor (lazy vs in-memory twin vs control backend) + shape/dtype contract on Array.__getitem__", "DESIGN.md §4 C02")
add("C11", "exploration",
    "Every load's complete I/O history (open/seek/read with offsets and sizes) is recorded by an instrumented fsspec filesystem and checked offline against group extents computed from the model: reads inside the file, inside one rpc-group overlapping the requested span, at most one per group, no other file touched; open-time reads front to back and at most ceil(lines/rpc) after the 720-byte descriptor.",
    "The requested line span is taken from a NumPy-backed control backend under xarray's lazy layer (what xarray asks a BASIC backend for), not from the repository. Trusted: tracefs file objects behave like real files.",
    "offline checker over a recorded event log from a tracing filesystem", "DESIGN.md §4 C11")
add("C06", "exploration",
    "Metamorphic monitor: one product is opened with a class-covering set of records_per_chunk values (plus an exhaustive lines x rpc block); the complete canonical leaf maps (every node, variable, attribute, encoding, loaded value) must be pairwise equal except the image variables' preferred chunk sizes, which are checked against min(rpc, lines) x pixels.",
    "Trusted: canon's leaf map is complete over the DataTree; products are synthetic with random content in every record.",
    "metamorphic differential monitor over complete trees", "DESIGN.md §4 C06")
add("C12", "exploration",
    "Invariant walk over every node, variable and attribute of trees produced by the real reader on seeded products of all levels: numpy dtype of an allowed kind, declared shape/dtype equal loaded ones (also for random selections), plain attributes, repr/html-repr/nbytes succeed. The level-1.1 nested sub-struct coordinates are an open known finding keyed to their five names; any other object-dtype variable is a new violation.",
    "Allowed attribute leaves include numpy scalars of plain kinds (not stricter than the statement).",
    "invariant monitor (tree walk at the API boundary) + wrapper invariant contract", "DESIGN.md §4 C12")
add("C13", "exploration",
    "Reference-model monitor: products with 1-8 images over polarisation x scan combinations, every file carrying distinct pixels and line numbers; children of /, /imagery (names, order), /metadata, /summary, root attribute names and text values, coordinate promotion and removal of the bookkeeping attribute are compared with the model; summaries shuffled, CRLF, several hash seeds.",
    "Naming rule and volume attribute table are frozen documentation (vf/speclib.py).",
    "reference-model monitor at the DataTree boundary", "DESIGN.md §4 C13")
add("C18", "fault_enumeration",
    "Every damaged variant of seeded products (image cut at every record boundary and +-1 byte, inside the descriptor, mid-prefix, mid-data, random; leader / volume directory cut at boundaries and sampled or all lengths; each used file missing) crossed with rpc below/at/above the line count is planted on the tracing filesystem with an empty cache directory and opened by the real open_alos2: truncated => must raise, missing => must raise an OSError; promptness is decided on logical steps (reads and bytes requested), wall clock only yields inconclusive.",
    "Exception type is constrained only for missing files. A returned tree on a truncated file is a violation and its loadable line count is reported.",
    "fault enumeration (planted truncation / missing-file states) + event-log bound on reads", "DESIGN.md §4 C18")
add("C19", "exploration",
    "A deterministic scheduler owns the yield points of real concurrent DataArray loads (thread start, lock acquisition, open/seek/read/close of the tracing filesystem, each before it takes effect) and enumerates all interleavings of 2 threads x 1-2 chunks (thorough: also 3 threads) for the three scenarios of the property by depth-first search, plus seeded random schedules of larger mixed loads; every thread's values are compared bitwise with the sequential load and a state with no runnable thread is reported as deadlock.",
    "Only scheduler-visible synchronisation (the SerializableLock used by ceos_alos2.xarray, replaced harness-side by a scheduler-aware subclass) can be pruned; a thread stuck on any other lock shows up as a join timeout => inconclusive. No dask.",
    "deterministic scheduler enumerating interleavings of real loads; sequential reference oracle; enabled-set deadlock detection", "DESIGN.md §4 C19")
add("C07", "exploration",
    "Seeded configurations of product x producer (create_cache option, CLI in-process and as a subprocess, adjacent or into the user cache directory) x location x filesystem x rpc at write/read time: the tree opened through the cache must equal the uncached tree leaf for leaf (incl. pixel values and the current call's chunk encoding); a tracing filesystem and an audit hook show that the image is not touched at open time when a usable cache exists and that no index file is touched with use_cache=False; a planted poisoned index must have no influence; with no cache the normal parse must result. Cache-key aliasing across filesystems is an open known finding.",
    "Adjacent caches only for local products; precedence between adjacent and user-dir caches is not asserted; os.stat is not observable through audit hooks.",
    "differential canon monitor + event-log (tracefs) and sys.addaudithook monitors + poison oracle", "DESIGN.md §4 C07")
add("C08", "exploration",
    "Round-trip identity of the real encoder/decoder on image groups produced by the real reader from extreme field values and on generated hierarchies covering every listed dtype kind, ranks 0-2, zero sizes and nested attributes; every document is decoded in-process and by a fresh interpreter reading it from disk, and compared at the xarray level (bit-exact values, dtypes, dims, tuple-vs-list attrs, order, paths) plus the image array's byte ranges/shape/type code.",
    "NaN payloads are not part of the comparison; spans of one datetime array stay below 2^63 units; zero-size rank>=2 arrays are an open known finding (removed from both sides before comparing the rest of the hierarchy).",
    "round-trip differential monitor across a process boundary", "DESIGN.md §4 C08")
add("C09", "fault_enumeration",
    "Every sampled (quick) or every (thorough) byte-length prefix of the real index document is planted in the user cache directory, next to the image, or both; writers are really interrupted (SIGXFSZ kill at a file-size limit, EFBIG at the limit, SIGKILL on entry to write(2) via strace fault injection) and read back by fresh processes; all interleavings of two writers' real syscalls on the real file supply NUL-holed states. After each state the default open_alos2 must succeed and equal the uncached tree, and create_cache=True followed by use_cache=True must end in a usable, equal cache.",
    "CPython writes the document with one write(2); both writers write the same document. Reader of planted states is a long-lived worker (fresh processes for real kills).",
    "fault enumeration of on-disk cache states (planted prefixes, real kills via rlimit/strace, syscall-level writer interleavings) + differential canon", "DESIGN.md §4 C09")
add("C10", "exploration",
    "All two-step sequences and seeded longer sequences over 16 operations (open x use_cache x create_cache x rpc, CLI creation in-process and as subprocess, cache deletions) run inside one interpreter; every step's tree is compared with a fresh uncached process's tree for that rpc, directory snapshots and an audit hook decide what was written where, option dictionaries and function defaults are compared before/after, earlier trees are re-checked for aliasing.",
    "References come from fresh processes with an empty private cache; deletes are the harness's own.",
    "history monitor: per-step differential canon against fresh-process references + snapshot and sys.addaudithook write monitors", "DESIGN.md §4 C10")
add("C14", "exploration",
    "Generated summaries (random key order within and across sections, LF/CRLF, free-text values with blanks, '=', quotes, 3-10 product files, several shape indices) are parsed by the real reader (summary.open_summary and, for a fifth, open_alos2) and every entry is compared type-exactly with the expectation of a hand-written recogniser and converter set; then lines are corrupted by eleven grammar-violating operators (single lines, pairs, random subsets, all lines) and the raised ExceptionGroup must name exactly the malformed line numbers under one constant base for the whole run.",
    "Canonical section capitalisation; unique non-empty keys; ASCII text. The conversion table is frozen documentation (vf/props/c14.py make_entries).",
    "reference-model monitor with an independent line recogniser; error-set oracle over ExceptionGroup line numbers", "DESIGN.md §4 C14")
add("C15", "exploration",
    "Enumeration of the documented identifier language through the real decoders: all 3600 product ids, all dates 2014-2049 as scene ids, all scan suffixes, all (polarisation, scan number) group names, file-name shapes (quick: 20k sampled, thorough: all ~3.8e5), compared with frozen code tables and a hand-written recogniser; single-edit near-misses that the recogniser rejects must raise ValueError; some ids go end to end through open_alos2.",
    "Two-digit years resolved relative to 2026; mission name fixed to ALOS2. Tables in vf/idlang.py are frozen documentation.",
    "reference-model monitor over an enumerated finite language + near-miss rejection oracle", "DESIGN.md §4 C15")
add("C03", "exploration",
    "Reference-model monitor: for seeded image files of both record types with every prefix field of every line random at once, the complete image group (every per-line coordinate with value, unit, dtype, order; per-file constants as attributes; header-derived attributes present exactly when the descriptor field is non-blank, all 16 blank/filled combinations plus blank interleaving) is compared with the expectation computed from the file bytes and the frozen leaf spec; nothing missing, nothing extra.",
    "vf/spec/leaves_image.json + layout.json are the documented layout (frozen from the repaired pinned tree by sentinel probing, reviewed); integer scale factors within 2 ulp.",
    "reference-model monitor (independent decoder + frozen leaf spec), complete both ways", "DESIGN.md §4 C03")
add("C04", "exploration",
    "Reference-model monitor over every node, variable and attribute under /metadata: seeded leader files with every field random at once in many admissible ASCII spellings, every enumerated code, 1-136 attitude points, 1-16 channels, map projection absent / present with each designator; expectation from bytes + frozen leaf spec with decimal/fraction arithmetic; completeness both ways. Attitude time values are judged by C17.",
    "vf/spec/leaves_leader.json (262 leaf entries over 60 nodes) is the documented layout; unscaled ASCII floats must be exactly the correctly rounded double, scaled ones within 4 ulp.",
    "reference-model monitor (independent decoder + frozen leaf spec), complete both ways", "DESIGN.md §4 C04")
add("C05", "exploration",
    "Exhaustive sweeps of every count and length declared inside the files (attitude points 1..136 and tight record lengths, channels 1..16, map projection 0/1, facility record lengths 66..4266, file pointers 0..16, trailer images 0..7 x sample widths) with random full-width content everywhere, decided by the C04/C16 oracles on the records that follow and by comparing trailer images with their own bytes.",
    "Only admissible counts/lengths; the trailer reader is driven directly (open_alos2 never calls it).",
    "exhaustive enumeration of small domains under a reference-model monitor", "DESIGN.md §4 C05")
add("C16", "exploration",
    "Reference-model monitor on the root attributes: seeded volume directory files with printable content of every width and placement in every text field, all creation timestamp classes, 0..16 file-pointer records with random content; every root attribute (names and values, nothing extra) is compared with the bytes of the volume descriptor and text record, the creation date-time as an instant.",
    "Contents begin and end with a non-blank character; attribute-name table is frozen documentation (vf/speclib.py).",
    "reference-model monitor at the DataTree root", "DESIGN.md §4 C16")
add("C17", "exploration",
    "One instant per case is written into every time-bearing field of a product at once (image ms / us stamps, attitude points, platform-position first point, scene-centre time, volume creation time) over boundary days, leap years and first/last milliseconds (thorough: every day of three years); each time leaf must equal the instant decoded from the bytes under the one calendar rule and fields given the same instant must agree. The attitude points' +1 day is an open known finding with a mechanism classifier.",
    "Decimal seconds have at most 6 decimals; the attitude year is the platform-position year as the property states.",
    "reference-model + relational (same instant => same datetime) monitor", "DESIGN.md §4 C17")
add("C20", "exploration",
    "(a) every nullable field of leader, volume directory and image descriptor is overwritten with blanks in the file bytes (alone, in random subsets, all at once) and the complete C03/C04/C16 expectation is recomputed and compared; (b) each product is written with blank padding and with two random fills of every spare/blank/reserved area and record tail and the three trees' canonical leaf maps must be identical; (c) thorough: byte-by-byte influence map of a leader (changed leaves must belong to the field owning the byte).",
    "Nullable = ASCII numeric/text fields that are not counts, lengths, codes, flag columns or date-time texts; padding content follows the area's character class.",
    "reference-model monitor under blanking + metamorphic canon equality under re-padding + influence map", "DESIGN.md §4 C20")
