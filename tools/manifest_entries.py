add("C01", "exploration",
    "Every element of every loaded image is compared bit for bit with the sample an independent encoder wrote, over seeded products spanning sample type, geometry, bit patterns, filesystems and records_per_chunk classes, plus an exhaustive small block (lines x rpc). Held means: no mismatch on the executions produced.",
    "Trusted: CPython, NumPy, xarray, fsspec, my encoder/reference decoder and the frozen layout table (vf/spec/layout.json). Synthetic well-formed files only.",
    "reference-model monitor (independent encoder) + icontract contracts on the real read path", "DESIGN.md §4 C01")
