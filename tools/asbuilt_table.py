"""print the 'as built' table of DESIGN.md §4 from the current evidence files (dev-time)"""
import glob
import json

print("| id | tier/seed | cases | evaluations | distinct non-trivial | what the monitors observed (counters of this run) | wall |")
print("|---|---|---|---|---|---|---|")
for f in sorted(glob.glob("/verif/evidence/C*.json")):
    e = json.load(open(f))
    c = e["coverage"]
    obs = ", ".join(f"{k} {v:,}" for k, v in c["observed"].items() if not k.startswith("fs:") and k not in ("contracts_ok", "contracts_unavailable"))
    r = c.get("reach", {})
    reach = f"; source lines reached {r.get('lines_in_function_bodies_executed')}/{r.get('lines_in_function_bodies')}" if r else ""
    print(f"| {e['property_id']} | {e['tier']}/{e['seed']} | {c['cases']} | {c['evaluations']:,} | {c['distinct_nontrivial']:,} | {obs}{reach} | {e['wall_s']:.0f} s |")
