"""replace the as-built table of DESIGN.md by one generated from evidence/*.json"""
import subprocess
t = subprocess.run(["/venv/bin/python", "/verif/tools/asbuilt_table.py"], capture_output=True, text=True, check=True).stdout
p = "/verif/DESIGN.md"
s = open(p).read()
a = s.index("<!-- ASBUILT-BEGIN -->") + len("<!-- ASBUILT-BEGIN -->")
b = s.index("<!-- ASBUILT-END -->")
open(p, "w").write(s[:a] + "\n" + t + s[b:])
print("table updated")
