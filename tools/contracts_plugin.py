"""pytest plugin (dev-time): run the repository's own suite with the harness contracts installed.

  cd /repo && PYTHONPATH=/verif:/verif/.deps /venv/bin/python -m pytest -q -p no:cacheprovider -p tools.contracts_plugin

A contract that fires here is either too strict or a defect the tests do not assert — read the witness before relaxing it.
"""
import sys

sys.path.insert(0, "/verif")
sys.path.insert(0, "/verif/.deps")


def pytest_configure(config):
    from vf import contracts

    config._vf_sites = contracts.install()


def pytest_terminal_summary(terminalreporter):
    from vf import contracts

    tr = terminalreporter
    tr.write_line(f"[vf contracts] rebinding sites: {tr.config._vf_sites}; evaluations: {dict(contracts.EVALS)}")
    tr.write_line(f"[vf contracts] failures recorded: {len(contracts.FAILS)}")
    for f in contracts.FAILS[:20]:
        tr.write_line(f"   {f}")
