#!/bin/bash
# tools/run_tier.sh <tier> [props...] : run checks sequentially, one summary line each
T=${1:-quick}; shift
P=${@:-C01 C02 C03 C04 C05 C06 C07 C08 C09 C10 C11 C12 C13 C14 C15 C16 C17 C18 C19 C20}
cd "$(dirname "$0")/.."
for p in $P; do
  s=$(date +%s); out=$(./check $p --tier $T 2>&1); rc=$?
  echo "rc=$rc $(echo "$out" | tail -1 | cut -c1-400) [$(( $(date +%s) - s ))s]"
  [ $rc -ne 0 ] && echo "$out" | grep -E "VIOLATION|INCONCLUSIVE|^  case" | head -8
done
