"""Regenerate MANIFEST.json from the table below (dev-time convenience; MANIFEST.json is what counts)."""
import json, subprocess
CHECKS = {}
def add(pid, cat, text, note, technique, ref):
    CHECKS[pid] = dict(property_id=pid, quick_cmd=f"./check {pid} --tier quick", thorough_cmd=f"./check {pid} --tier thorough",
        evidence_file=f"/verif/evidence/{pid}.json", replay_cmd_template=f"./check {pid} --replay {{path}}", engine="vf",
        level_claimed=dict(category=cat, text=text, design_ref=ref), level_note=note, technique=technique)
exec(open("/verif/tools/manifest_entries.py").read())
ALL = [f"C{i:02d}" for i in range(1, 21)]
NA = json.load(open("/verif/tools/not_applicable.json"))
fixes = subprocess.run(["git", "-C", "/repo", "log", "--format=%h %s"], capture_output=True, text=True).stdout.splitlines()
m = {
 "version": 1,
 "setup_cmd": "./setup.sh",
 "hooks": {"guard": "CEOS_ALOS2_VERIF", "enable": "no source hooks: every observation point is outside the repository (custom fsspec protocol, audit hook, harness-side rebinding of functions with icontract); the variable is set by the harness only",
           "baseline_off_cmd": "cd /repo && /venv/bin/python -m pytest -ra -q -p no:cacheprovider --timeout=900 --continue-on-collection-errors",
           "source_commits": [], "add_only": True},
 "engines": [{"name": "vf", "path": "/verif/vf", "serves_properties": sorted(CHECKS), "kind_free_text": "runtime monitoring: synthetic CEOS products from an independent encoder, reference decoder, tracing filesystem, icontract contracts, audit hook, deterministic scheduler; 16 worker processes"}],
 "checks": [CHECKS[k] for k in sorted(CHECKS)],
 "not_applicable": [dict(property_id=k, reason=NA.get(k, "check not built yet in this session; see DESIGN.md")) for k in ALL if k not in CHECKS],
 "notes": "Repository fixes are unguarded 'fix:' commits (see known_findings.json 'fixed' entries). VERIF_SEED and VERIF_TIER honoured; VERIF_REPO only for self-tests against scratch copies. Every worker shard runs under one combination of a worker environment matrix (time zone, python -O, eager imports in a seeded order; listed in each evidence file). 170 seeded changes (seeded/) and behaviour-preserving / behaviour-changing-but-allowed probes (refactors/, features/) document what the checks catch and what they stay silent on; tools/selftest_seeded.sh re-runs the former.",
}
json.dump(m, open("/verif/MANIFEST.json", "w"), indent=1)


print("manifest ok:", sorted(CHECKS))
