"""Dev-time only: walk the repository's construct structs and emit field tables.

Never imported by a check.  Output is reviewed and committed as data under
vf/spec/ — from then on the JSON *is* the documented layout.
"""
import construct as C
from ceos_alos2 import datatypes as D
from ceos_alos2.sar_image import enums as E


def walk(con, path=(), off=0, out=None):
    if out is None:
        out = []
    if isinstance(con, C.Renamed):
        return walk(con.subcon, path + (con.name,), off, out)
    if isinstance(con, C.Struct):
        for sc in con.subcons:
            off = walk(sc, path, off, out)
        return off
    if isinstance(con, D.Metadata):
        n0 = len(out)
        off2 = walk(con.subcon, path, off, out)
        out.append({"t": "META", "path": path, "attrs": dict(con.attrs), "first": n0})
        return off2
    if isinstance(con, D.Factor):
        off2 = walk(con.subcon, path, off, out)
        out.append({"t": "FACTOR", "path": path, "factor": repr(con.factor)})
        return off2
    if isinstance(con, D.AsciiInteger):
        w = con.subcon.sizeof(); out.append({"t": "F", "path": path, "off": off, "width": w, "kind": "A_int"}); return off + w
    if isinstance(con, D.AsciiFloat):
        w = con.subcon.sizeof(); out.append({"t": "F", "path": path, "off": off, "width": w, "kind": "A_float"}); return off + w
    if isinstance(con, D.AsciiComplex):
        w = con.subcon.sizeof(); out.append({"t": "F", "path": path, "off": off, "width": w, "kind": "A_complex"}); return off + w
    if isinstance(con, D.PaddedString):
        try:
            w = con.subcon.sizeof()
        except Exception:
            out.append({"t": "DYN", "path": path, "off": off, "kind": "A_str"}); return off
        out.append({"t": "F", "path": path, "off": off, "width": w, "kind": "A_str"}); return off + w
    if isinstance(con, D.StripNullBytes):
        w = con.subcon.sizeof(); out.append({"t": "F", "path": path, "off": off, "width": w, "kind": "bytes"}); return off + w
    if isinstance(con, D.DatetimeYdms):
        out.append({"t": "F", "path": path, "off": off, "width": 12, "kind": "ydms"}); return off + 12
    if isinstance(con, D.DatetimeYdus):
        out.append({"t": "F", "path": path, "off": off, "width": 8, "kind": "ydus"}); return off + 8
    if isinstance(con, E.Flag):
        w = con.subcon.sizeof(); out.append({"t": "F", "path": path, "off": off, "width": w, "kind": "flag"}); return off + w
    if isinstance(con, C.Enum):
        sub = []
        off2 = walk(con.subcon, path, off, sub)
        k = sub[0]
        out.append({"t": "F", "path": path, "off": off, "width": off2 - off, "kind": "enum", "base": k["kind"],
                    "enum": {str(a): b for a, b in con.encmapping.items()}})
        return off2
    if isinstance(con, C.FormatField):
        w = con.sizeof(); out.append({"t": "F", "path": path, "off": off, "width": w, "kind": "u%d" % (w * 8)}); return off + w
    if isinstance(con, C.Array):
        cnt = con.count
        if callable(cnt):
            out.append({"t": "DYNARRAY", "path": path, "off": off}); return off
        for i in range(cnt):
            off = walk(con.subcon, path + (i,), off, out)
        return off
    if con is C.Tell or isinstance(con, (C.Computed, C.Seek)):
        out.append({"t": "Z", "path": path, "off": off, "what": type(con).__name__}); return off
    raise TypeError((path, con, type(con)))


def table(con):
    """-> (fields, size). fields: list of dicts name/off/width/kind[/enum/base/factor/meta]"""
    raw = []
    end = walk(con, (), 0, raw)
    fields = []
    byname = {}
    for e in raw:
        if e["t"] == "F":
            f = {"name": ".".join(map(str, e["path"])), "off": e["off"], "width": e["width"], "kind": e["kind"]}
            for k in ("enum", "base"):
                if k in e:
                    f[k] = e[k]
            fields.append(f)
            byname[e["path"]] = f
        elif e["t"] == "FACTOR":
            byname[e["path"]]["factor"] = e["factor"]
        elif e["t"] == "META":
            p = e["path"]
            if p in byname:
                byname[p]["meta"] = e["attrs"]
            else:
                # metadata on a struct: remember on a pseudo entry
                fields.append({"name": ".".join(map(str, p)), "struct_meta": e["attrs"]})
        elif e["t"] in ("DYN", "DYNARRAY"):
            fields.append({"name": ".".join(map(str, e["path"])), "off": e["off"], "dynamic": e["t"]})
    return fields, end
