"""python3-vt tools/validate.py : validate MANIFEST.json and all evidence files against the schemas"""
import json, glob, sys, jsonschema
ok = True
jsonschema.validate(json.load(open("/verif/MANIFEST.json")), json.load(open("/root/.vp/MANIFEST.schema.json")))
es = json.load(open("/root/.vp/EVIDENCE.schema.json"))
for p in sorted(glob.glob("/verif/evidence/*.json")):
    try:
        jsonschema.validate(json.load(open(p)), es)
    except Exception as e:
        ok = False; print("INVALID", p, str(e)[:300])
ps = json.load(open("/root/.vp/PROPERTIES.schema.json"))
for l in open("/verif/properties.jsonl"):
    jsonschema.validate(json.loads(l), ps)
print("valid" if ok else "INVALID")
sys.exit(0 if ok else 1)
