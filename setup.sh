#!/bin/sh
# offline: put icontract (+ its pure-python deps) beside the repository's interpreter, under /verif/.deps
cd "$(dirname "$0")"
if [ ! -d .deps/icontract ]; then
  PIP_NO_INDEX=1 /venv/bin/pip install --quiet --no-index --find-links /opt/veriftools/wheels \
      --target .deps icontract >/dev/null 2>&1 || echo "setup: icontract not installed (contracts monitor will report zero evaluations)"
fi
exit 0
